use wirefilter::*;
#[test]
fn plus_escape() {
    let mut b = SchemeBuilder::new();
    b.add_field("s", Type::Bytes).unwrap();
    b.add_field("n", Type::Int).unwrap();
    b.add_list(Type::Int, AlwaysList {}).unwrap();
    let s = b.build();
    assert!(s.parse(r#"s == "\x+f""#).is_err());
    assert!(s.parse(r#"s == +1:+2"#).is_err());
    assert!(s.parse(r#"s == "\+12""#).is_err());
    assert!(s.parse(r#"s == "\x0f""#).is_ok());
    assert!(s.parse(r#"s == 01:02"#).is_ok());
}
#[test]
fn always() {
    let mut b = SchemeBuilder::new();
    b.add_field("n", Type::Int).unwrap();
    b.add_list(Type::Int, AlwaysList {}).unwrap();
    let s = b.build();
    let f = s.parse("n in $x").unwrap().compile();
    let mut ctx = ExecutionContext::<()>::new(&s);
    ctx.set_field_value(s.get_field("n").unwrap(), 1).unwrap();
    assert_eq!(f.execute(&ctx), Ok(true));
}
#[test]
fn deep_type() {
    for k in [1usize, 32, 33, 34, 40] {
        let mut j = String::new();
        for _ in 0..k { j.push_str("{\"Array\":"); }
        j.push_str("\"Int\"");
        for _ in 0..k { j.push('}'); }
        let r = std::panic::catch_unwind(|| serde_json::from_str::<Type>(&j).is_ok());
        println!("k={k} -> {r:?}");
    }
}
