//! C07 obligation on the hand-written `Serialize for BytesExpr` ("decoded literals" in the
//! canonical JSON): a quoted or raw literal whose bytes are valid UTF-8 serializes as that
//! STRING (ASCII or not), every other literal - byte-pair syntax, or invalid UTF-8 - as the
//! sequence of its bytes.  Driven with a recording serializer (no I/O).
use super::super::*;
use crate::lex::verif_kani::common_recser::{self as recser, Rec};
use serde::Serialize;

fn bytes_expr_json_shape<const N: usize>() {
    let data: [u8; N] = kani::any();
    let format = match kani::any::<u8>() % 3 {
        0 => BytesFormat::Quoted,
        1 => BytesFormat::Raw(kani::any()),
        _ => BytesFormat::Byte,
    };
    let is_byte = matches!(format, BytesFormat::Byte);
    let e = BytesExpr::new(data.to_vec(), format);
    recser::reset();
    let r = e.serialize(Rec);
    assert!(r.is_ok());
    let text = std::str::from_utf8(&data);
    if !is_byte && text.is_ok() {
        assert!(recser::count() == 1, "a textual literal is one JSON string");
        let (kind, code) = recser::entry(0);
        assert!(kind == recser::STR && code == recser::str_code(text.unwrap()), "valid UTF-8 text (ASCII or not) serializes as that string");
    } else {
        let (kind, len) = recser::entry(0);
        assert!(kind == recser::SEQ && len == N as u64, "byte-pair literals and invalid UTF-8 serialize as the sequence of their bytes");
        let mut i = 0;
        while i < N {
            assert!(recser::entry(1 + i) == (recser::U8, data[i] as u64));
            i += 1;
        }
        assert!(recser::count() == N + 2);
    }
    kani::cover!(!is_byte && text.is_ok() && N > 0 && data[0] >= 0x80, "non-ASCII text");
    kani::cover!(!is_byte && text.is_err(), "invalid UTF-8 in a quoted literal");
    kani::cover!(is_byte);
    std::mem::forget(e);
    std::mem::forget(r);
}

#[kani::proof]
#[kani::unwind(5)]
fn bytes_expr_serialize__string_iff_textual_utf8_len2() {
    bytes_expr_json_shape::<2>()
}

#[kani::proof]
#[kani::unwind(4)]
fn bytes_expr_serialize__string_iff_textual_utf8_len1() {
    bytes_expr_json_shape::<1>()
}

/// Order- and length-sensitive hasher local to the obligation (no SipHash under CBMC):
/// it folds every byte it is fed, so two hash() runs agree iff they feed it the same bytes.
struct FoldHasher(u64);

impl std::hash::Hasher for FoldHasher {
    fn finish(&self) -> u64 {
        self.0
    }
    fn write(&mut self, bytes: &[u8]) {
        let mut i = 0;
        while i < bytes.len() {
            self.0 = self.0.wrapping_mul(0x100_0000_01b3).wrapping_add(bytes[i] as u64 + 1);
            i += 1;
        }
    }
}

fn any_format() -> BytesFormat {
    match kani::any::<u8>() % 3 {
        0 => BytesFormat::Quoted,
        1 => BytesFormat::Raw(kani::any()),
        _ => BytesFormat::Byte,
    }
}

/// "equal ASTs have equal hashes" on the hand-written pair Eq (derived, includes the
/// format tag) / Hash (hand-written, bytes only) of BytesExpr: for every two N-byte
/// literals in every two formats, a == b implies hash(a) == hash(b); different bytes are
/// never equal, and the same bytes written the same way always are.
fn bytes_expr_eq_hash<const N: usize>() {
    use std::hash::{Hash, Hasher};
    let da: [u8; N] = kani::any();
    let db: [u8; N] = kani::any();
    let fa = any_format();
    let fb = any_format();
    let same_format = fa == fb;
    let a = BytesExpr::new(da.to_vec(), fa);
    let b = BytesExpr::new(db.to_vec(), fb);
    let eq = a == b;
    // (whether the same bytes written in two different formats are equal is left open:
    // the statement does not say)
    assert!(!eq || da == db, "literals with different bytes are different");
    assert!(eq || !(da == db && same_format), "the same literal written the same way is equal to itself");
    let mut ha = FoldHasher(7);
    a.hash(&mut ha);
    let mut hb = FoldHasher(7);
    b.hash(&mut hb);
    if eq {
        assert!(ha.finish() == hb.finish(), "equal literals have equal hashes");
    }
    kani::cover!(eq);
    kani::cover!(da == db && !same_format, "same bytes, different spelling");
    std::mem::forget(a);
    std::mem::forget(b);
}

#[kani::proof]
#[kani::unwind(12)]
fn bytes_expr_eq_hash__coherent_len2() {
    bytes_expr_eq_hash::<2>()
}
