//! C07 obligation on the hand-written `Serialize for BytesExpr` ("decoded literals" in the
//! canonical JSON): a quoted or raw literal whose bytes are valid UTF-8 serializes as that
//! STRING (ASCII or not), every other literal - byte-pair syntax, or invalid UTF-8 - as the
//! sequence of its bytes.  Driven with a recording serializer (no I/O).
use super::super::*;
use crate::lex::verif_kani::common_recser::{self as recser, Rec};
use serde::Serialize;

fn bytes_expr_json_shape<const N: usize>() {
    let data: [u8; N] = kani::any();
    let format = match kani::any::<u8>() % 3 {
        0 => BytesFormat::Quoted,
        1 => BytesFormat::Raw(kani::any()),
        _ => BytesFormat::Byte,
    };
    let is_byte = matches!(format, BytesFormat::Byte);
    let e = BytesExpr::new(data.to_vec(), format);
    recser::reset();
    let r = e.serialize(Rec);
    assert!(r.is_ok());
    let text = std::str::from_utf8(&data);
    if !is_byte && text.is_ok() {
        assert!(recser::count() == 1, "a textual literal is one JSON string");
        let (kind, code) = recser::entry(0);
        assert!(kind == recser::STR && code == recser::str_code(text.unwrap()), "valid UTF-8 text (ASCII or not) serializes as that string");
    } else {
        let (kind, len) = recser::entry(0);
        assert!(kind == recser::SEQ && len == N as u64, "byte-pair literals and invalid UTF-8 serialize as the sequence of their bytes");
        let mut i = 0;
        while i < N {
            assert!(recser::entry(1 + i) == (recser::U8, data[i] as u64));
            i += 1;
        }
        assert!(recser::count() == N + 2);
    }
    kani::cover!(!is_byte && text.is_ok() && N > 0 && data[0] >= 0x80, "non-ASCII text");
    kani::cover!(!is_byte && text.is_err(), "invalid UTF-8 in a quoted literal");
    kani::cover!(is_byte);
    std::mem::forget(e);
    std::mem::forget(r);
}

#[kani::proof]
#[kani::unwind(5)]
fn bytes_expr_serialize__string_iff_textual_utf8_len2() {
    bytes_expr_json_shape::<2>()
}

#[kani::proof]
#[kani::unwind(4)]
fn bytes_expr_serialize__string_iff_textual_utf8_len1() {
    bytes_expr_json_shape::<1>()
}
