//! C05 obligations: the raw-string lexer's index arithmetic is safe on
//! arbitrary input (multi-byte characters, stray quotes and hashes), and what
//! it accepts is an exact partition of the input.
use super::super::*;
use crate::lex::verif_kani::common::is_suffix_at;

// Draft removed: `raw_total::<K, P>` (every text of K symbolic characters over {#, ", a}
// with one e-acute at position P; partition + first-closing-sequence postcondition) gave
// no result in 300-400 s for K = 3 (1 M symex steps, 19 M clauses).  Concrete literals:

/// Expected result of the raw-string lexer on a literal (text after the `r`):
/// Some((hashes, body start, body length, bytes consumed)) or None for an error.
fn raw_case(input: &'static str, want: Option<(u8, usize, usize, usize)>) {
    match lex_raw_string_as_str(input) {
        Ok(((body, h), rest)) => {
            let ok = match want {
                Some((wh, start, len, consumed)) => {
                    h == wh
                        && std::ptr::eq(body.as_ptr(), unsafe { input.as_ptr().add(start) })
                        && body.len() == len
                        && is_suffix_at(input, rest, consumed)
                }
                None => false,
            };
            assert!(ok, "raw string: #^h, quote, body, quote, #^h is consumed, nothing else");
        }
        Err((kind, at)) => {
            assert!(want.is_none(), "a well-formed raw string is accepted");
            let lo = input.as_ptr() as usize;
            let a = at.as_ptr() as usize;
            assert!(lo <= a && a + at.len() <= lo + input.len(), "the error span lies inside the input");
            assert!(input.is_char_boundary(a - lo) && input.is_char_boundary(a - lo + at.len()), "the error span is on character boundaries");
            std::mem::forget(kind);
        }
    }
}

/// Well-formed raw strings, with multi-byte bodies, stray quotes / hashes in the body,
/// more closing hashes than opening ones (the surplus is left).
#[kani::proof]
#[kani::unwind(14)]
fn lex_raw_string__accepted_literals() {
    raw_case("\"a\"", Some((0, 1, 1, 3)));
    raw_case("\"\u{e9}\"x", Some((0, 1, 2, 4)));
    raw_case("#\"\u{e9}\"#", Some((1, 2, 2, 6)));
    raw_case("#\"a\"##", Some((1, 2, 1, 5)));
    raw_case("##\"a\"#\"##;", Some((2, 3, 3, 9)));
    kani::cover!(true, "list completed");
}

/// Malformed ones: no quote, unterminated, too few closing hashes, multi-byte character
/// where the quote should be.
#[kani::proof]
#[kani::unwind(14)]
fn lex_raw_string__rejected_literals() {
    raw_case("", None);
    raw_case("#", None);
    raw_case("\u{e9}\"", None);
    raw_case("#\u{e9}\"#", None);
    raw_case("\"\u{e9}", None);
    raw_case("##\"\u{e9}\"#", None);
    kani::cover!(true, "list completed");
}

// ---------------------------------------------------------------------------
// quoted strings: error spans around multi-byte characters

/// `span` is the sub-slice [at, at+len) of `input` and both ends are character
/// boundaries of `input`.
fn is_char_aligned_subslice(input: &str, span: &str, at: usize, len: usize) -> bool {
    at + len <= input.len()
        && std::ptr::eq(span.as_ptr(), unsafe { input.as_ptr().add(at) })
        && span.len() == len
        && input.is_char_boundary(at)
        && input.is_char_boundary(at + len)
}

/// Regression obligation: an invalid escape whose escaped character is multi-byte
/// (`"a\éb"`, text after the opening quote).  The lexer must not panic and the error
/// span must be exactly that character (a slice on character boundaries), so that
/// `ParseError::new` and `Display` can slice the line by it.
#[kani::proof]
#[kani::unwind(8)]
#[kani::stub(std::mem::drop, crate::ast::field_expr::verif_kani::common::mem_drop__leak)]
fn lex_quoted_string__invalid_escape_of_multibyte_char() {
    let input = "a\\\u{e9}b\"";
    match lex_quoted_string_as_vec(input) {
        Ok(x) => {
            std::mem::forget(x);
            assert!(false, "\\é is not an escape");
        }
        Err((kind, span)) => {
            assert!(matches!(&kind, LexErrorKind::InvalidCharacterEscape));
            assert!(is_char_aligned_subslice(input, span, 2, 2), "the error designates the escaped character, whole");
            kani::cover!(true, "error arm");
            std::mem::forget(kind);
        }
    }
}

/// Same with a 3-byte and a 4-byte escaped character.
#[kani::proof]
#[kani::unwind(8)]
#[kani::stub(std::mem::drop, crate::ast::field_expr::verif_kani::common::mem_drop__leak)]
fn lex_quoted_string__invalid_escape_of_3_and_4_byte_chars() {
    let input = "\\\u{20ac}\"";
    match lex_quoted_string_as_vec(input) {
        Ok(x) => {
            std::mem::forget(x);
            assert!(false);
        }
        Err((kind, span)) => {
            assert!(matches!(&kind, LexErrorKind::InvalidCharacterEscape));
            assert!(is_char_aligned_subslice(input, span, 1, 3));
            std::mem::forget(kind);
        }
    }
    let input = "\\\u{1f600}\"";
    match lex_quoted_string_as_vec(input) {
        Ok(x) => {
            std::mem::forget(x);
            assert!(false);
        }
        Err((kind, span)) => {
            assert!(matches!(&kind, LexErrorKind::InvalidCharacterEscape));
            assert!(is_char_aligned_subslice(input, span, 1, 4));
            kani::cover!(true, "error arm");
            std::mem::forget(kind);
        }
    }
}

// Draft removed: `quoted_total::<K, P>` (every text of K symbolic characters over
// {backslash, quote, a} with one e-acute at position P) gave no result in 300 s for K = 2.

/// More literals around escapes and multi-byte characters (text after the opening quote).
fn quoted_err_case(input: &'static str, at: usize, len: usize) {
    match lex_quoted_string_as_vec(input) {
        Ok(x) => {
            std::mem::forget(x);
            assert!(false, "malformed string accepted");
        }
        Err((kind, span)) => {
            assert!(is_char_aligned_subslice(input, span, at, len), "the error span is the expected sub-slice, on character boundaries");
            std::mem::forget(kind);
        }
    }
}

macro_rules! quoted_err_harness {
    ($name:ident, $input:literal, $at:literal, $len:literal) => {
        #[kani::proof]
        #[kani::unwind(10)]
        #[kani::stub(std::mem::drop, crate::ast::field_expr::verif_kani::common::mem_drop__leak)]
        fn $name() {
            quoted_err_case($input, $at, $len);
            kani::cover!(true, "case completed");
        }
    };
}

// One case per obligation (five in one did not finish in 300 s).  NOT REGISTERED unless
// C05.toml lists them: no result in 120 s each (hex/octal digit parsing and the
// run-to-end-of-input loop behind unfolded `Option<char>` / `Result` tags).  The error
// span never splits a character:
// \x + e-acute + 1: two CHARACTERS are taken as the digits, span = both (3 bytes)
quoted_err_harness!(lex_quoted_string__hex_escape_followed_by_multibyte_char, "\\x\u{e9}1\"", 2, 3);
// \0 + e-acute + 7: three characters from the 0 (4 bytes)
quoted_err_harness!(lex_quoted_string__octal_escape_followed_by_multibyte_char, "\\0\u{e9}7\"", 1, 4);
// \x cut short by the end of the input: located at what is left
quoted_err_harness!(lex_quoted_string__hex_escape_cut_by_end_of_input, "\\x4", 2, 1);
// no closing quote after a multi-byte character: the whole text
quoted_err_harness!(lex_quoted_string__no_closing_quote_after_multibyte_char, "a\u{e9}", 0, 3);
// backslash at the very end
quoted_err_harness!(lex_quoted_string__backslash_at_end_after_multibyte_char, "\u{e9}\\", 0, 3);
