//! C05 obligations: the raw-string lexer's index arithmetic is safe on
//! arbitrary input (multi-byte characters, stray quotes and hashes), and what
//! it accepts is an exact partition of the input.
use super::super::*;
use crate::lex::verif_kani::common::is_suffix_at;

/// Every string of K items over {#, ", a, é}: no panic; if accepted with h
/// hashes: input == #^h " body " #^h rest, body does not contain " #^h.
fn raw_total<const K: usize>() {
    let mut buf = [0u8; 12];
    let mut n = 0;
    let mut i = 0;
    while i < K {
        match kani::any::<u8>() % 4 {
            0 => {
                buf[n] = b'#';
                n += 1;
            }
            1 => {
                buf[n] = b'"';
                n += 1;
            }
            2 => {
                buf[n] = b'a';
                n += 1;
            }
            _ => {
                buf[n] = 0xc3;
                buf[n + 1] = 0xa9;
                n += 2;
            }
        }
        i += 1;
    }
    let input = unsafe { std::str::from_utf8_unchecked(&buf[..n]) };
    match lex_raw_string_as_str(input) {
        Ok(((body, h), rest)) => {
            let h = h as usize;
            let mut i = 0;
            while i < h {
                assert!(buf[i] == b'#');
                i += 1;
            }
            assert!(buf[h] == b'"', "opening quote after the hashes");
            assert!(std::ptr::eq(body.as_ptr(), unsafe { input.as_ptr().add(h + 1) }), "the body starts after the opening quote");
            let end = h + 1 + body.len();
            assert!(buf[end] == b'"', "closing quote after the body");
            let mut i = 0;
            while i < h {
                assert!(buf[end + 1 + i] == b'#', "as many closing hashes as opening ones");
                i += 1;
            }
            assert!(is_suffix_at(input, rest, end + 1 + h), "exactly the literal is consumed");
            kani::cover!(h == 1 && body.len() > 0);
            kani::cover!(body.len() == 2 && buf[h + 1] == 0xc3, "multi-byte body");
        }
        Err(e) => {
            std::mem::forget(e);
        }
    }
}

#[kani::proof]
#[kani::unwind(10)]
fn lex_raw_string__total_and_partition_k4() {
    raw_total::<4>()
}

#[kani::proof]
#[kani::unwind(12)]
fn lex_raw_string__total_and_partition_k5() {
    raw_total::<5>()
}
