//! C05 obligations: the raw-string lexer's index arithmetic is safe on
//! arbitrary input (multi-byte characters, stray quotes and hashes), and what
//! it accepts is an exact partition of the input.
use super::super::*;
use crate::lex::verif_kani::common::is_suffix_at;

/// A text of constant length: K symbolic characters drawn from `alphabet` (ASCII), with
/// one `é` (2 bytes) inserted in front of character number P when P <= K (P > K: no
/// `é`).  The byte length (K or K + 2) is a constant of the obligation; with a symbolic
/// length (`é` anywhere) the K = 4 raw-string obligation did not finish in 400 s.
fn text<const K: usize, const P: usize>(alphabet: [u8; 3]) -> ([u8; 12], usize) {
    let mut buf = [0u8; 12];
    let mut n = 0;
    let mut i = 0;
    while i <= K {
        if i == P {
            buf[n] = 0xc3;
            buf[n + 1] = 0xa9;
            n += 2;
        }
        if i < K {
            buf[n] = alphabet[(kani::any::<u8>() % 3) as usize];
            n += 1;
        }
        i += 1;
    }
    (buf, n)
}

/// Every such text over {#, ", a} (+ é): no panic; if accepted with h
/// hashes: input == #^h " body " #^h rest.
fn raw_total<const K: usize, const P: usize>() {
    let (buf, n) = text::<K, P>([b'#', b'"', b'a']);
    let input = unsafe { std::str::from_utf8_unchecked(&buf[..n]) };
    match lex_raw_string_as_str(input) {
        Ok(((body, h), rest)) => {
            let h = h as usize;
            let mut i = 0;
            while i < h {
                assert!(buf[i] == b'#');
                i += 1;
            }
            assert!(buf[h] == b'"', "opening quote after the hashes");
            assert!(std::ptr::eq(body.as_ptr(), unsafe { input.as_ptr().add(h + 1) }), "the body starts after the opening quote");
            let end = h + 1 + body.len();
            assert!(buf[end] == b'"', "closing quote after the body");
            let mut i = 0;
            while i < h {
                assert!(buf[end + 1 + i] == b'#', "as many closing hashes as opening ones");
                i += 1;
            }
            assert!(is_suffix_at(input, rest, end + 1 + h), "exactly the literal is consumed");
            // the body holds no closing sequence (quote followed by h hashes)
            let mut j = 0;
            while j < body.len() {
                if buf[h + 1 + j] == b'"' {
                    let mut hashes = 0;
                    while hashes < h && h + 2 + j + hashes < end && buf[h + 2 + j + hashes] == b'#' {
                        hashes += 1;
                    }
                    assert!(hashes < h, "the literal ends at the FIRST closing sequence");
                }
                j += 1;
            }
            kani::cover!(h == 1 || K < 4, "one hash (needs 4 characters)");
            kani::cover!(h == 0 && rest.len() > 0, "something left after the literal");
        }
        Err((kind, at)) => {
            let lo = input.as_ptr() as usize;
            let a = at.as_ptr() as usize;
            assert!(lo <= a && a + at.len() <= lo + n, "the error span lies inside the input");
            assert!(input.is_char_boundary(a - lo), "the error span starts on a character boundary");
            kani::cover!(matches!(&kind, LexErrorKind::MissingEndingQuote), "no closing sequence");
            std::mem::forget(kind);
        }
    }
}

macro_rules! raw_case {
    ($name:ident, $k:literal, $p:literal) => {
        #[kani::proof]
        #[kani::unwind(10)]
        fn $name() {
            raw_total::<$k, $p>()
        }
    };
}

raw_case!(lex_raw_string__total_and_partition_ascii3, 3, 9);
raw_case!(lex_raw_string__total_and_partition_ascii4, 4, 9);
raw_case!(lex_raw_string__total_and_partition_ascii5, 5, 9);
// one `é` at each position of a 3-character text
raw_case!(lex_raw_string__total_and_partition_e_at0, 3, 0);
raw_case!(lex_raw_string__total_and_partition_e_at1, 3, 1);
raw_case!(lex_raw_string__total_and_partition_e_at2, 3, 2);
raw_case!(lex_raw_string__total_and_partition_e_at3, 3, 3);

// ---------------------------------------------------------------------------
// quoted strings: error spans around multi-byte characters

/// `span` is the sub-slice [at, at+len) of `input` and both ends are character
/// boundaries of `input`.
fn is_char_aligned_subslice(input: &str, span: &str, at: usize, len: usize) -> bool {
    at + len <= input.len()
        && std::ptr::eq(span.as_ptr(), unsafe { input.as_ptr().add(at) })
        && span.len() == len
        && input.is_char_boundary(at)
        && input.is_char_boundary(at + len)
}

/// Regression obligation: an invalid escape whose escaped character is multi-byte
/// (`"a\éb"`, text after the opening quote).  The lexer must not panic and the error
/// span must be exactly that character (a slice on character boundaries), so that
/// `ParseError::new` and `Display` can slice the line by it.
#[kani::proof]
#[kani::unwind(8)]
#[kani::stub(std::mem::drop, crate::ast::field_expr::verif_kani::common::mem_drop__leak)]
fn lex_quoted_string__invalid_escape_of_multibyte_char() {
    let input = "a\\\u{e9}b\"";
    match lex_quoted_string_as_vec(input) {
        Ok(x) => {
            std::mem::forget(x);
            assert!(false, "\\é is not an escape");
        }
        Err((kind, span)) => {
            assert!(matches!(&kind, LexErrorKind::InvalidCharacterEscape));
            assert!(is_char_aligned_subslice(input, span, 2, 2), "the error designates the escaped character, whole");
            kani::cover!(true, "error arm");
            std::mem::forget(kind);
        }
    }
}

/// Same with a 3-byte and a 4-byte escaped character.
#[kani::proof]
#[kani::unwind(8)]
#[kani::stub(std::mem::drop, crate::ast::field_expr::verif_kani::common::mem_drop__leak)]
fn lex_quoted_string__invalid_escape_of_3_and_4_byte_chars() {
    let input = "\\\u{20ac}\"";
    match lex_quoted_string_as_vec(input) {
        Ok(x) => {
            std::mem::forget(x);
            assert!(false);
        }
        Err((kind, span)) => {
            assert!(matches!(&kind, LexErrorKind::InvalidCharacterEscape));
            assert!(is_char_aligned_subslice(input, span, 1, 3));
            std::mem::forget(kind);
        }
    }
    let input = "\\\u{1f600}\"";
    match lex_quoted_string_as_vec(input) {
        Ok(x) => {
            std::mem::forget(x);
            assert!(false);
        }
        Err((kind, span)) => {
            assert!(matches!(&kind, LexErrorKind::InvalidCharacterEscape));
            assert!(is_char_aligned_subslice(input, span, 1, 4));
            kani::cover!(true, "error arm");
            std::mem::forget(kind);
        }
    }
}

/// Every text (see `text`) over {\\, ", a} (+ é): no panic; what is accepted is a prefix
/// of the input ending after a quote; every error span is a sub-slice of the input on
/// character boundaries.
fn quoted_total<const K: usize, const P: usize>() {
    let (buf, n) = text::<K, P>([b'\\', b'"', b'a']);
    let input = unsafe { std::str::from_utf8_unchecked(&buf[..n]) };
    match lex_quoted_string_as_vec(input) {
        Ok((vec, rest)) => {
            let at = n - rest.len();
            assert!(is_suffix_at(input, rest, at) && at >= 1 && buf[at - 1] == b'"', "consumed up to and including a quote");
            kani::cover!(true, "accepted");
            std::mem::forget(vec);
        }
        Err((kind, span)) => {
            let lo = input.as_ptr() as usize;
            let a = span.as_ptr() as usize;
            assert!(lo <= a && a + span.len() <= lo + n, "the error span lies inside the input");
            let at = a - lo;
            assert!(at == n || buf[at] & 0xc0 != 0x80, "the span starts on a character boundary");
            let end = at + span.len();
            assert!(end == n || buf[end] & 0xc0 != 0x80, "the span ends on a character boundary");
            kani::cover!(matches!(&kind, LexErrorKind::MissingEndingQuote), "no closing quote");
            std::mem::forget(kind);
        }
    }
}

macro_rules! quoted_case {
    ($name:ident, $k:literal, $p:literal) => {
        #[kani::proof]
        #[kani::unwind(10)]
        #[kani::stub(std::mem::drop, crate::ast::field_expr::verif_kani::common::mem_drop__leak)]
        fn $name() {
            quoted_total::<$k, $p>()
        }
    };
}

quoted_case!(lex_quoted_string__total_and_spans_ascii2, 2, 9);
quoted_case!(lex_quoted_string__total_and_spans_ascii3, 3, 9);
quoted_case!(lex_quoted_string__total_and_spans_e_at0, 2, 0);
quoted_case!(lex_quoted_string__total_and_spans_e_at1, 2, 1);
quoted_case!(lex_quoted_string__total_and_spans_e_at2, 2, 2);
