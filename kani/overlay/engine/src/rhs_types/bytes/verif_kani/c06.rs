//! C06 obligations on the byte-string literal lexers (engine/src/rhs_types/bytes.rs).
use super::super::*;
use crate::lex::verif_kani::common::*;

/// K1 (hex): for every ASCII string of exactly 3 bytes:
/// Ok((b, rest)) <=> the first two characters are hex digits; then b is their
/// value and rest is exactly the third character.  Anything else is an error.
#[kani::proof]
#[kani::unwind(6)]
fn hex_byte__exact_digits() {
    let buf = [any_ascii(), any_ascii(), any_ascii()];
    let input = ascii_str(&buf, 3);
    let want = match (hex_val(buf[0]), hex_val(buf[1])) {
        (Some(h), Some(l)) => Some(h * 16 + l),
        _ => None,
    };
    match hex_byte(input) {
        Ok((b, rest)) => {
            assert!(want.is_some(), "an escape that is not exactly two hex digits must be rejected");
            assert!(Some(b) == want, "\\xHH denotes the byte HH");
            assert!(is_suffix_at(input, rest, 2), "exactly two characters are consumed");
            kani::cover!(b == 0xff);
            kani::cover!(b == 0x0f);
        }
        Err(e) => {
            assert!(want.is_none(), "two hex digits must be accepted");
            kani::cover!(buf[0] == b'+', "sign in first position is rejected");
            kani::cover!(buf[0] == b'-');
            kani::cover!(buf[1] == b' ');
            std::mem::forget(e);
        }
    }
}

/// K1 (hex, short input): fewer than two characters is an error.
#[kani::proof]
#[kani::unwind(6)]
fn hex_byte__short_input_rejected() {
    let buf = [any_ascii()];
    let n: usize = if kani::any() { 0 } else { 1 };
    let r = hex_byte(ascii_str(&buf, n));
    assert!(r.is_err(), "an incomplete escape is rejected");
    std::mem::forget(r);
}

/// K1 (oct): for every ASCII string of exactly 4 bytes:
/// Ok <=> the first three characters are octal digits and the value fits a byte.
#[kani::proof]
#[kani::unwind(7)]
fn oct_byte__exact_digits() {
    let buf = [any_ascii(), any_ascii(), any_ascii(), any_ascii()];
    let input = ascii_str(&buf, 4);
    let want = match (oct_val(buf[0]), oct_val(buf[1]), oct_val(buf[2])) {
        (Some(a), Some(b), Some(c)) if a <= 3 => Some(a * 64 + b * 8 + c),
        _ => None,
    };
    match oct_byte(input) {
        Ok((b, rest)) => {
            assert!(want.is_some(), "an escape that is not exactly three octal digits (<= 377) must be rejected");
            assert!(Some(b) == want, "\\OOO denotes the byte OOO");
            assert!(is_suffix_at(input, rest, 3), "exactly three characters are consumed");
            kani::cover!(b == 0o377);
        }
        Err(e) => {
            assert!(want.is_none(), "three octal digits <= 377 must be accepted");
            kani::cover!(buf[0] == b'4', "400 and above do not fit a byte");
            kani::cover!(buf[0] == b'+');
            kani::cover!(buf[2] == b'8');
            std::mem::forget(e);
        }
    }
}

/// K1 (non-ASCII neighbourhood): a multi-byte character inside the window is
/// never a digit and never splits a character.
#[kani::proof]
#[kani::unwind(8)]
fn fixed_byte__multibyte_char_rejected() {
    let r = hex_byte("é1");
    assert!(r.is_err());
    std::mem::forget(r);
    let r = hex_byte("1é");
    assert!(r.is_err());
    std::mem::forget(r);
    let r = oct_byte("12é");
    assert!(r.is_err());
    std::mem::forget(r);
}

// ---------------------------------------------------------------------------
// K4: separator-delimited hex pairs  HH(sep HH)+

fn is_sep(b: u8) -> bool {
    b == b':' || b == b'-' || b == b'.'
}

/// Every ASCII string of exactly 6 bytes "hh?hh?": accepted <=> hh sep hh with
/// hex digits; bytes are exactly the two values; consumption is 5 plus (if the
/// 6th is a separator the lexer goes on and fails on the missing pair).
#[kani::proof]
#[kani::unwind(8)]
fn lex_byte_string__two_pairs() {
    let buf = [any_ascii(), any_ascii(), any_ascii(), any_ascii(), any_ascii(), any_ascii()];
    let input = ascii_str(&buf, 6);
    let p0 = match (hex_val(buf[0]), hex_val(buf[1])) {
        (Some(h), Some(l)) => Some(h * 16 + l),
        _ => None,
    };
    let p1 = match (hex_val(buf[3]), hex_val(buf[4])) {
        (Some(h), Some(l)) => Some(h * 16 + l),
        _ => None,
    };
    let ok = p0.is_some() && is_sep(buf[2]) && p1.is_some() && !is_sep(buf[5]);
    match lex_byte_string(input) {
        Ok((bytes, rest)) => {
            assert!(ok, "only HH sep HH (not followed by a dangling separator) is accepted");
            assert!(bytes.data.len() == 2 && bytes.data[0] == p0.unwrap() && bytes.data[1] == p1.unwrap(), "the bytes are the pair values in order");
            assert!(matches!(bytes.format, BytesFormat::Byte));
            assert!(is_suffix_at(input, rest, 5), "exactly the literal's characters are consumed");
            kani::cover!(buf[2] == b'-' );
            std::mem::forget(bytes);
        }
        Err(e) => {
            assert!(!ok, "HH sep HH must be accepted");
            kani::cover!(p0.is_some() && !is_sep(buf[2]), "a single pair without separator is rejected");
            kani::cover!(p0.is_some() && is_sep(buf[2]) && p1.is_none());
            kani::cover!(p0.is_some() && is_sep(buf[2]) && p1.is_some() && is_sep(buf[5]), "dangling separator");
            std::mem::forget(e);
        }
    }
}

// ---------------------------------------------------------------------------
// K2: quoted strings.  Source items are drawn from a symbolic kind + payload.

/// Writes one source item into `src` at `*n` and the bytes it denotes into
/// `out` at `*m`.  kind: 0 plain ASCII char (not `"` or `\`), 1 `\"`, 2 `\\`,
/// 3 `\xHH`, 4 `\OOO`.
fn put_item(kind: u8, payload: u8, src: &mut [u8], n: &mut usize, out: &mut [u8], m: &mut usize) {
    const HEX: &[u8; 16] = b"0123456789abcdef";
    match kind {
        0 => {
            kani::assume(payload < 128 && payload != b'"' && payload != b'\\');
            src[*n] = payload;
            *n += 1;
            out[*m] = payload;
        }
        1 => {
            src[*n] = b'\\';
            src[*n + 1] = b'"';
            *n += 2;
            out[*m] = b'"';
        }
        2 => {
            src[*n] = b'\\';
            src[*n + 1] = b'\\';
            *n += 2;
            out[*m] = b'\\';
        }
        3 => {
            src[*n] = b'\\';
            src[*n + 1] = b'x';
            src[*n + 2] = HEX[(payload >> 4) as usize];
            src[*n + 3] = HEX[(payload & 15) as usize];
            *n += 4;
            out[*m] = payload;
        }
        _ => {
            src[*n] = b'\\';
            src[*n + 1] = b'0' + (payload >> 6);
            src[*n + 2] = b'0' + ((payload >> 3) & 7);
            src[*n + 3] = b'0' + (payload & 7);
            *n += 4;
            out[*m] = payload;
        }
    }
    *m += 1;
}

/// Every body of K items (each of the five kinds, every byte value in the
/// escape forms) followed by the closing quote and one more character decodes
/// to exactly the denoted bytes and consumes exactly the literal.
fn quoted_items<const K: usize>() {
    let mut src = [0u8; 16];
    let mut out = [0u8; 4];
    let mut n = 0;
    let mut m = 0;
    let mut i = 0;
    while i < K {
        let kind: u8 = kani::any();
        kani::assume(kind < 5);
        put_item(kind, kani::any(), &mut src, &mut n, &mut out, &mut m);
        i += 1;
    }
    src[n] = b'"';
    src[n + 1] = b'z';
    let input = ascii_str(&src, n + 2);
    match lex_quoted_string_as_vec(input) {
        Ok((v, rest)) => {
            assert!(v.len() == K, "one byte per source item");
            let mut i = 0;
            while i < K {
                assert!(v[i] == out[i], "each item denotes its documented byte");
                i += 1;
            }
            assert!(is_suffix_at(input, rest, n + 1), "consumes up to and including the closing quote");
            std::mem::forget(v);
        }
        Err(e) => {
            std::mem::forget(e);
            assert!(false, "a well-formed quoted string must be accepted");
        }
    }
}

#[kani::proof]
#[kani::unwind(8)]
fn lex_quoted_string__one_item() {
    quoted_items::<1>()
}

#[kani::proof]
#[kani::unwind(12)]
fn lex_quoted_string__two_items() {
    quoted_items::<2>()
}

/// Malformed quoted strings: unterminated -> MissingEndingQuote; an escape
/// other than " \ x 0-7 -> InvalidCharacterEscape.
#[kani::proof]
#[kani::unwind(8)]
fn lex_quoted_string__malformed_rejected() {
    // unterminated: one plain char, no closing quote
    let c = any_ascii();
    kani::assume(c != b'"' && c != b'\\');
    let buf = [c];
    let r = lex_quoted_string_as_vec(ascii_str(&buf, 1));
    assert!(matches!(r, Err((LexErrorKind::MissingEndingQuote, _))), "unterminated strings are rejected");
    std::mem::forget(r);
    // bad escape
    let e = any_ascii();
    kani::assume(e != b'"' && e != b'\\' && e != b'x' && !(b'0'..=b'7').contains(&e));
    let buf = [b'\\', e, b'"'];
    let r = lex_quoted_string_as_vec(ascii_str(&buf, 3));
    assert!(matches!(r, Err((LexErrorKind::InvalidCharacterEscape, _))), "unknown escapes are rejected");
    std::mem::forget(r);
    // lone backslash at the end
    let r = lex_quoted_string_as_vec("\\");
    assert!(matches!(r, Err((LexErrorKind::MissingEndingQuote, _))));
    std::mem::forget(r);
}

// ---------------------------------------------------------------------------
// K3: raw strings  r#*"body"#*

/// H opening hashes (0..=2), body of exactly L characters over {", #, a} chosen
/// symbolically *such that it does not contain the terminator*, then `"` + H
/// hashes + one trailing character: the body is returned verbatim, the hash
/// count is reported, and exactly the literal is consumed.
fn raw_string<const H: usize, const L: usize>() {
    let mut src = [0u8; 16];
    let mut n = 0;
    let mut i = 0;
    while i < H {
        src[n] = b'#';
        n += 1;
        i += 1;
    }
    src[n] = b'"';
    n += 1;
    let body_at = n;
    let mut i = 0;
    while i < L {
        let c = match kani::any::<u8>() % 3 {
            0 => b'"',
            1 => b'#',
            _ => b'a',
        };
        src[n] = c;
        n += 1;
        i += 1;
    }
    // the body must not contain `"` followed by H hashes (that would end it early)
    let mut p = body_at;
    while p < n {
        if src[p] == b'"' {
            let mut cnt = 0;
            let mut q = p + 1;
            while q < n && src[q] == b'#' {
                cnt += 1;
                q += 1;
            }
            // hashes of the body that directly precede the real terminator count too
            kani::assume(cnt < H);
        }
        p += 1;
    }
    // a body ending in hashes directly before the closing quote is fine; a body
    // whose last char is `"` is fine only if H > 0 (checked above with cnt = 0 < H)
    let body_end = n;
    src[n] = b'"';
    n += 1;
    let mut i = 0;
    while i < H {
        src[n] = b'#';
        n += 1;
        i += 1;
    }
    let lit_end = n;
    src[n] = b'z';
    n += 1;
    let input = ascii_str(&src, n);
    match lex_raw_string_as_str(input) {
        Ok(((body, hashes), rest)) => {
            assert!(hashes as usize == H, "the number of # is reported");
            assert!(body.as_bytes() == &src[body_at..body_end], "the raw body is taken verbatim");
            assert!(is_suffix_at(input, rest, lit_end), "exactly the literal is consumed");
            kani::cover!(L > 0 && src[body_at] == b'"', "body containing a quote");
            std::mem::forget(body);
        }
        Err(e) => {
            std::mem::forget(e);
            assert!(false, "a well-formed raw string must be accepted");
        }
    }
}

#[kani::proof]
#[kani::unwind(10)]
fn lex_raw_string__h0_l2() {
    raw_string::<0, 2>()
}

#[kani::proof]
#[kani::unwind(12)]
fn lex_raw_string__h1_l3() {
    raw_string::<1, 3>()
}

#[kani::proof]
#[kani::unwind(14)]
fn lex_raw_string__h2_l3() {
    raw_string::<2, 3>()
}

/// Unterminated raw strings and a missing opening quote are rejected.
#[kani::proof]
#[kani::unwind(8)]
fn lex_raw_string__malformed_rejected() {
    let r = lex_raw_string_as_str("#\"ab\"");
    assert!(matches!(r, Err((LexErrorKind::MissingEndingQuote, _))), "one # opened, none closed");
    std::mem::forget(r);
    let r = lex_raw_string_as_str("\"ab");
    assert!(matches!(r, Err((LexErrorKind::MissingEndingQuote, _))));
    std::mem::forget(r);
    let r = lex_raw_string_as_str("#a");
    assert!(matches!(r, Err((LexErrorKind::ExpectedName(_), _))));
    std::mem::forget(r);
}
