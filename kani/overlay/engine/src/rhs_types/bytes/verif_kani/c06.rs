//! C06 obligations on the byte-string literal lexers (engine/src/rhs_types/bytes.rs).
use super::super::*;
use crate::lex::verif_kani::common::*;

/// K1 (hex): for every ASCII string of exactly 3 bytes:
/// Ok((b, rest)) <=> the first two characters are hex digits; then b is their
/// value and rest is exactly the third character.  Anything else is an error.
#[kani::proof]
#[kani::unwind(6)]
fn hex_byte__exact_digits() {
    let buf = [any_ascii(), any_ascii(), any_ascii()];
    let input = ascii_str(&buf, 3);
    let want = match (hex_val(buf[0]), hex_val(buf[1])) {
        (Some(h), Some(l)) => Some(h * 16 + l),
        _ => None,
    };
    match hex_byte(input) {
        Ok((b, rest)) => {
            assert!(want.is_some(), "an escape that is not exactly two hex digits must be rejected");
            assert!(Some(b) == want, "\\xHH denotes the byte HH");
            assert!(is_suffix_at(input, rest, 2), "exactly two characters are consumed");
            kani::cover!(b == 0xff);
            kani::cover!(b == 0x0f);
        }
        Err(e) => {
            assert!(want.is_none(), "two hex digits must be accepted");
            kani::cover!(buf[0] == b'+', "sign in first position is rejected");
            kani::cover!(buf[0] == b'-');
            kani::cover!(buf[1] == b' ');
            std::mem::forget(e);
        }
    }
}

/// K1 (hex, short input): fewer than two characters is an error.
#[kani::proof]
#[kani::unwind(6)]
fn hex_byte__short_input_rejected() {
    let buf = [any_ascii()];
    let n: usize = if kani::any() { 0 } else { 1 };
    let r = hex_byte(ascii_str(&buf, n));
    assert!(r.is_err(), "an incomplete escape is rejected");
    std::mem::forget(r);
}

/// K1 (oct): for every ASCII string of exactly 4 bytes:
/// Ok <=> the first three characters are octal digits and the value fits a byte.
#[kani::proof]
#[kani::unwind(7)]
fn oct_byte__exact_digits() {
    let buf = [any_ascii(), any_ascii(), any_ascii(), any_ascii()];
    let input = ascii_str(&buf, 4);
    let want = match (oct_val(buf[0]), oct_val(buf[1]), oct_val(buf[2])) {
        (Some(a), Some(b), Some(c)) if a <= 3 => Some(a * 64 + b * 8 + c),
        _ => None,
    };
    match oct_byte(input) {
        Ok((b, rest)) => {
            assert!(want.is_some(), "an escape that is not exactly three octal digits (<= 377) must be rejected");
            assert!(Some(b) == want, "\\OOO denotes the byte OOO");
            assert!(is_suffix_at(input, rest, 3), "exactly three characters are consumed");
            kani::cover!(b == 0o377);
        }
        Err(e) => {
            assert!(want.is_none(), "three octal digits <= 377 must be accepted");
            kani::cover!(buf[0] == b'4', "400 and above do not fit a byte");
            kani::cover!(buf[0] == b'+');
            kani::cover!(buf[2] == b'8');
            std::mem::forget(e);
        }
    }
}

/// K1 (non-ASCII neighbourhood): a multi-byte character inside the window is
/// never a digit and never splits a character.
#[kani::proof]
#[kani::unwind(8)]
fn fixed_byte__multibyte_char_rejected() {
    let r = hex_byte("é1");
    assert!(r.is_err());
    std::mem::forget(r);
    let r = hex_byte("1é");
    assert!(r.is_err());
    std::mem::forget(r);
    let r = oct_byte("12é");
    assert!(r.is_err());
    std::mem::forget(r);
}

// ---------------------------------------------------------------------------
// CONTRACT STUBS of K1 for the obligations on the lexers that call hex_byte /
// oct_byte / ByteSeparator::lex.  They are loop-free and consume a CONSTANT number
// of bytes, so that the callers' obligations stay affordable (a symbolic iterator
// position makes every further step of the caller expensive for CBMC; the real
// functions walk the input with `chars()`).  Discharged on the real functions by
// hex_byte__* / oct_byte__* / fixed_byte__* / byte_separator_lex__* above and below.

/// hex_byte: Ok((value, input minus 2 bytes)) <=> the first two characters are hex digits.
fn hex_byte__contract(input: &str) -> LexResult<'_, u8> {
    let a = input.as_bytes();
    if a.len() >= 2 {
        if let (Some(h), Some(l)) = (hex_val(a[0]), hex_val(a[1])) {
            return Ok((h * 16 + l, &input[2..]));
        }
    }
    Err((LexErrorKind::EOF, input))
}

/// oct_byte: Ok((value, input minus 3 bytes)) <=> the first three characters are
/// octal digits and the value fits a byte.
fn oct_byte__contract(input: &str) -> LexResult<'_, u8> {
    let a = input.as_bytes();
    if a.len() >= 3 {
        if let (Some(x), Some(y), Some(z)) = (oct_val(a[0]), oct_val(a[1]), oct_val(a[2])) {
            if x <= 3 {
                return Ok((x * 64 + y * 8 + z, &input[3..]));
            }
        }
    }
    Err((LexErrorKind::EOF, input))
}

/// ByteSeparator::lex: Ok((_, input minus 1 byte)) <=> the first character is `:`, `-` or `.`.
/// (`'a` mirrors the impl's early-bound lifetime: Kani wants the same number of generics.)
fn byte_separator_lex__contract<'a>(input: &str) -> LexResult<'_, ByteSeparator>
where
    'a: 'a,
{
    let a = input.as_bytes();
    if a.len() >= 1 {
        if a[0] == b':' {
            return Ok((ByteSeparator::Colon, &input[1..]));
        }
        if a[0] == b'-' {
            return Ok((ByteSeparator::Dash, &input[1..]));
        }
        if a[0] == b'.' {
            return Ok((ByteSeparator::Dot, &input[1..]));
        }
    }
    Err((LexErrorKind::EOF, input))
}

fn is_sep(b: u8) -> bool {
    b == b':' || b == b'-' || b == b'.'
}

/// ByteSeparator::lex on every ASCII string of 2 bytes: accepted <=> the first
/// character is `:`, `-` or `.`; exactly that character is consumed.
#[kani::proof]
#[kani::unwind(4)]
fn byte_separator_lex__three_separators() {
    let buf = [any_ascii(), any_ascii()];
    let input = unsafe { std::str::from_utf8_unchecked(&buf) };
    let r = ByteSeparator::lex(input);
    match &r {
        Ok((sep, rest)) => {
            assert!(is_sep(buf[0]), "only : - . separate byte pairs");
            assert!(matches!(sep, ByteSeparator::Colon) == (buf[0] == b':') && matches!(sep, ByteSeparator::Dash) == (buf[0] == b'-') && matches!(sep, ByteSeparator::Dot) == (buf[0] == b'.'));
            assert!(is_suffix_at(input, rest, 1), "exactly the separator is consumed");
            kani::cover!(buf[0] == b'.', "dot");
        }
        Err(_) => {
            assert!(!is_sep(buf[0]), "the three separators are accepted");
            kani::cover!(buf[0] == b';', "other punctuation rejected");
        }
    }
    std::mem::forget(r);
    let r = ByteSeparator::lex("");
    assert!(r.is_err(), "end of input is not a separator");
    std::mem::forget(r);
}

// ---------------------------------------------------------------------------
// K4: separator-delimited hex pairs  HH(sep HH)+   (against the contracts of
// hex_byte and ByteSeparator::lex)

/// loop-free ASCII view of a 6-byte buffer
fn ascii_str6(buf: &[u8; 6]) -> &str {
    assert!(buf[0] < 128 && buf[1] < 128 && buf[2] < 128 && buf[3] < 128 && buf[4] < 128 && buf[5] < 128);
    unsafe { std::str::from_utf8_unchecked(buf) }
}

/// Every ASCII string of exactly 6 bytes "hh?hh?": accepted <=> hh sep hh with
/// hex digits (a sign is not a digit) and no dangling separator behind; the bytes
/// are exactly the two values; exactly the 5 characters are consumed.
#[kani::proof]
#[kani::stub(std::mem::drop, crate::lex::verif_kani::common::mem_drop__leak)]
#[kani::unwind(4)]
#[kani::stub(crate::rhs_types::bytes::hex_byte, hex_byte__contract)]
#[kani::stub(<crate::rhs_types::bytes::ByteSeparator as crate::lex::Lex>::lex, byte_separator_lex__contract)]
fn lex_byte_string__two_pairs() {
    let buf = [any_ascii(), any_ascii(), any_ascii(), any_ascii(), any_ascii(), any_ascii()];
    let input = ascii_str6(&buf);
    let p0 = match (hex_val(buf[0]), hex_val(buf[1])) {
        (Some(h), Some(l)) => Some(h * 16 + l),
        _ => None,
    };
    let p1 = match (hex_val(buf[3]), hex_val(buf[4])) {
        (Some(h), Some(l)) => Some(h * 16 + l),
        _ => None,
    };
    let ok = p0.is_some() && is_sep(buf[2]) && p1.is_some() && !is_sep(buf[5]);
    let r = lex_byte_string(input);
    match &r {
        Ok((bytes, rest)) => {
            assert!(ok, "only HH sep HH (not followed by a dangling separator) is accepted");
            assert!(bytes.data.len() == 2 && bytes.data[0] == p0.unwrap() && bytes.data[1] == p1.unwrap(), "the bytes are the pair values in order");
            assert!(matches!(bytes.format, BytesFormat::Byte));
            assert!(is_suffix_at(input, rest, 5), "exactly the literal's characters are consumed");
            kani::cover!(buf[2] == b'-', "dash separator");
            kani::cover!(buf[2] == b'.', "dot separator");
            kani::cover!(bytes.data[0] == 0xff && bytes.data[1] == 0, "extreme byte values");
        }
        Err(_) => {
            assert!(!ok, "HH sep HH must be accepted");
            kani::cover!(p0.is_some() && !is_sep(buf[2]), "a single pair without separator is rejected");
            kani::cover!(p0.is_some() && is_sep(buf[2]) && p1.is_none(), "second pair malformed");
            kani::cover!(p0.is_some() && is_sep(buf[2]) && p1.is_some() && is_sep(buf[5]), "dangling separator");
            kani::cover!(buf[0] == b'+' && hex_val(buf[1]).is_some(), "sign inside a pair is rejected");
        }
    }
    std::mem::forget(r);
}

/// Three pairs, concrete (regression obligation): mixed separators, exact bytes.
#[kani::proof]
#[kani::stub(std::mem::drop, crate::lex::verif_kani::common::mem_drop__leak)]
#[kani::unwind(5)]
#[kani::stub(crate::rhs_types::bytes::hex_byte, hex_byte__contract)]
#[kani::stub(<crate::rhs_types::bytes::ByteSeparator as crate::lex::Lex>::lex, byte_separator_lex__contract)]
fn lex_byte_string__three_pairs_concrete() {
    let s: &'static str = "01:fE-7f;";
    let r = lex_byte_string(s);
    assert!(matches!(&r, Ok((b, rest)) if b.data.len() == 3 && b.data[0] == 1 && b.data[1] == 0xfe && b.data[2] == 0x7f && is_suffix_at(s, rest, 8)));
    kani::cover!(r.is_ok());
    std::mem::forget(r);
}

// ---------------------------------------------------------------------------
// K2: quoted strings (against the contracts of hex_byte / oct_byte).  Source items
// of a CONSTANT kind, so that the input length is constant; the escapes' payload is
// symbolic (every byte value in both escape forms).
// kind: 0 plain `a`, 1 `\"`, 2 `\\`, 3 `\xHH`, 4 `\OOO`.

const fn item_len(kind: u8) -> usize {
    match kind {
        0 => 1,
        1 | 2 => 2,
        _ => 4,
    }
}

fn put_item(kind: u8, payload: u8, src: &mut [u8], n: usize, out: &mut [u8], m: usize) {
    const HEX: &[u8; 16] = b"0123456789abcdef";
    match kind {
        0 => {
            src[n] = b'a';
            out[m] = b'a';
        }
        1 => {
            src[n] = b'\\';
            src[n + 1] = b'"';
            out[m] = b'"';
        }
        2 => {
            src[n] = b'\\';
            src[n + 1] = b'\\';
            out[m] = b'\\';
        }
        3 => {
            src[n] = b'\\';
            src[n + 1] = b'x';
            src[n + 2] = HEX[(payload >> 4) as usize];
            src[n + 3] = HEX[(payload & 15) as usize];
            out[m] = payload;
        }
        _ => {
            src[n] = b'\\';
            src[n + 1] = b'0' + (payload >> 6);
            src[n + 2] = b'0' + ((payload >> 3) & 7);
            src[n + 3] = b'0' + (payload & 7);
            out[m] = payload;
        }
    }
}

/// A body of three items of kinds K1, K2, K3 followed by the closing quote and one
/// more character decodes to exactly the denoted bytes and consumes exactly the
/// literal (LEN = total source length: a constant of the obligation).
fn quoted_items<const K1: u8, const K2: u8, const K3: u8, const LEN: usize>() {
    assert!(LEN == item_len(K1) + item_len(K2) + item_len(K3) + 2);
    let mut src = [0u8; LEN];
    let mut out = [0u8; 3];
    put_item(K1, kani::any(), &mut src, 0, &mut out, 0);
    put_item(K2, kani::any(), &mut src, item_len(K1), &mut out, 1);
    put_item(K3, kani::any(), &mut src, item_len(K1) + item_len(K2), &mut out, 2);
    src[LEN - 2] = b'"';
    src[LEN - 1] = b'z';
    // ASCII by construction
    let input = unsafe { std::str::from_utf8_unchecked(&src) };
    let r = lex_quoted_string_as_vec(input);
    match &r {
        Ok((v, rest)) => {
            assert!(v.len() == 3, "one byte per escape / plain character");
            assert!(v[0] == out[0] && v[1] == out[1] && v[2] == out[2], "each item denotes its documented byte");
            assert!(is_suffix_at(input, rest, LEN - 1), "consumes up to and including the closing quote");
            kani::cover!(v[0] == 0xff || v[1] == 0xff || v[2] == 0xff, "byte 0xff through an escape");
            kani::cover!(v[0] == 0 || v[1] == 0 || v[2] == 0, "byte 0 through an escape");
            kani::cover!(v[0] == b'"' || v[1] == b'"' || v[2] == b'"', "a quote inside the string");
        }
        Err(_) => {
            assert!(false, "a well-formed quoted string must be accepted");
        }
    }
    std::mem::forget(r);
}

// NOT REGISTERED: hex_plain_oct, oct_quote_escape_hex, backslash_escape_hex_hex give no result in 500 s
// (dropping / growing the Vec<u8> behind a symbolic escape); plain_oct_backslash_escape finishes.
#[kani::proof]
#[kani::stub(std::mem::drop, crate::lex::verif_kani::common::mem_drop__leak)]
#[kani::unwind(7)]
#[kani::stub(crate::rhs_types::bytes::hex_byte, hex_byte__contract)]
#[kani::stub(crate::rhs_types::bytes::oct_byte, oct_byte__contract)]
fn lex_quoted_string__hex_plain_oct() {
    quoted_items::<3, 0, 4, 11>()
}

#[kani::proof]
#[kani::stub(std::mem::drop, crate::lex::verif_kani::common::mem_drop__leak)]
#[kani::unwind(7)]
#[kani::stub(crate::rhs_types::bytes::hex_byte, hex_byte__contract)]
#[kani::stub(crate::rhs_types::bytes::oct_byte, oct_byte__contract)]
fn lex_quoted_string__oct_quote_escape_hex() {
    quoted_items::<4, 1, 3, 12>()
}

#[kani::proof]
#[kani::stub(std::mem::drop, crate::lex::verif_kani::common::mem_drop__leak)]
#[kani::unwind(7)]
#[kani::stub(crate::rhs_types::bytes::hex_byte, hex_byte__contract)]
#[kani::stub(crate::rhs_types::bytes::oct_byte, oct_byte__contract)]
fn lex_quoted_string__backslash_escape_hex_hex() {
    quoted_items::<2, 3, 3, 12>()
}

#[kani::proof]
#[kani::unwind(7)]
#[kani::stub(crate::rhs_types::bytes::hex_byte, hex_byte__contract)]
#[kani::stub(crate::rhs_types::bytes::oct_byte, oct_byte__contract)]
fn lex_quoted_string__plain_oct_backslash_escape() {
    quoted_items::<0, 4, 2, 9>()
}

/// `\x` followed by ANY two ASCII characters: accepted <=> both are hex digits.
#[kani::proof]
#[kani::unwind(6)]
#[kani::stub(crate::rhs_types::bytes::hex_byte, hex_byte__contract)]
#[kani::stub(crate::rhs_types::bytes::oct_byte, oct_byte__contract)]
fn lex_quoted_string__hex_escape_needs_two_hex_digits() {
    let c0 = any_ascii();
    let c1 = any_ascii();
    let src = [b'\\', b'x', c0, c1, b'"', b'z'];
    let input = ascii_str6(&src);
    let want = match (hex_val(c0), hex_val(c1)) {
        (Some(h), Some(l)) => Some(h * 16 + l),
        _ => None,
    };
    let r = lex_quoted_string_as_vec(input);
    match &r {
        Ok((v, rest)) => {
            assert!(want.is_some(), "an escape that is not exactly two hex digits is rejected");
            assert!(v.len() == 1 && Some(v[0]) == want && is_suffix_at(input, rest, 5));
            kani::cover!(v[0] == 0xab, "letter digits");
        }
        Err(_) => {
            assert!(want.is_none(), "two hex digits are accepted");
            kani::cover!(hex_val(c0).is_some() && c1 == b'"', "one hex digit then the closing quote");
            kani::cover!(c0 == b'+', "sign");
        }
    }
    std::mem::forget(r);
}

/// `\` followed by an octal digit and ANY two ASCII characters: accepted <=> all
/// three are octal digits and the value fits a byte.
#[kani::proof]
#[kani::unwind(6)]
#[kani::stub(crate::rhs_types::bytes::hex_byte, hex_byte__contract)]
#[kani::stub(crate::rhs_types::bytes::oct_byte, oct_byte__contract)]
fn lex_quoted_string__oct_escape_needs_three_oct_digits() {
    let d: u8 = kani::any();
    kani::assume(d <= 7);
    let c0 = b'0' + d;
    let c1 = any_ascii();
    let c2 = any_ascii();
    let src = [b'\\', c0, c1, c2, b'"', b'z'];
    let input = ascii_str6(&src);
    let want = match (oct_val(c0), oct_val(c1), oct_val(c2)) {
        (Some(a), Some(b), Some(c)) if a <= 3 => Some(a * 64 + b * 8 + c),
        _ => None,
    };
    let r = lex_quoted_string_as_vec(input);
    match &r {
        Ok((v, rest)) => {
            assert!(want.is_some(), "an escape that is not exactly three octal digits <= 377 is rejected");
            assert!(v.len() == 1 && Some(v[0]) == want && is_suffix_at(input, rest, 5));
            kani::cover!(v[0] == 0o377, "largest octal escape");
        }
        Err(_) => {
            assert!(want.is_none(), "three octal digits <= 377 are accepted");
            kani::cover!(oct_val(c1).is_some() && c2 == b'"', "two octal digits then the closing quote");
            kani::cover!(c0 == b'4' && oct_val(c1).is_some() && oct_val(c2).is_some(), "400 and above");
        }
    }
    std::mem::forget(r);
}

/// Concrete regression obligation: one literal with every item kind (plain, `\"`,
/// `\\`, `\xHH`, `\OOO`, a raw two-byte character) decodes to exactly its bytes.
#[kani::proof]
#[kani::unwind(20)]
fn lex_quoted_string__every_item_kind_concrete() {
    let s: &'static str = "a\\\"\\\\\\x4a\\101\u{e9}\"z";
    let r = lex_quoted_string_as_vec(s);
    let want: [u8; 7] = [b'a', b'"', b'\\', 0x4a, 0o101, 0xc3, 0xa9];
    match &r {
        Ok((v, rest)) => {
            assert!(v.len() == 7, "one byte per escape / plain character, the character's bytes otherwise");
            let mut i = 0;
            while i < 7 {
                assert!(v[i] == want[i], "each item denotes its documented byte");
                i += 1;
            }
            assert!(is_suffix_at(s, rest, s.len() - 1), "consumes up to and including the closing quote");
            kani::cover!(true, "accepted");
        }
        Err(_) => {
            assert!(false, "a well-formed quoted string must be accepted");
        }
    }
    std::mem::forget(r);
}

macro_rules! quoted_rejected {
    ($name:ident, $unwind:literal, $s:literal, $msg:literal) => {
        #[kani::proof]
        #[kani::unwind($unwind)]
        fn $name() {
            let r = lex_quoted_string_as_vec($s);
            // (the property promises an error, not a particular error kind)
            assert!(r.is_err(), $msg);
            kani::cover!(r.is_err(), "rejected");
            std::mem::forget(r);
        }
    };
}

// Malformed quoted strings (concrete regression obligations).
quoted_rejected!(lex_quoted_string__unterminated_rejected, 6, "ab", "unterminated strings are rejected");
quoted_rejected!(lex_quoted_string__trailing_backslash_rejected, 6, "a\\", "a lone backslash at the end is an unterminated string");
quoted_rejected!(lex_quoted_string__escaped_quote_does_not_terminate, 6, "a\\\"", "an escaped quote does not close the string");
quoted_rejected!(lex_quoted_string__escape_n_rejected, 6, "\\n\"", "\\n is not an escape of this language");
quoted_rejected!(lex_quoted_string__escape_8_rejected, 6, "\\8\"", "8 is not an octal digit");
quoted_rejected!(lex_quoted_string__escape_upper_x_rejected, 8, "\\X41\"", "only a lower-case x introduces a hex escape");
// NOT REGISTERED (no result in 500 s; the clause is carried symbolically by lex_quoted_string__hex_escape_needs_two_hex_digits / oct_escape_needs_three_oct_digits):
quoted_rejected!(lex_quoted_string__one_hex_digit_rejected, 8, "\\x4\"z", "an escape with one hex digit is rejected");
quoted_rejected!(lex_quoted_string__two_oct_digits_rejected, 8, "\\12\"z", "an escape with two octal digits is rejected");
quoted_rejected!(lex_quoted_string__oct_400_rejected, 8, "\\400\"", "an octal escape above 377 is rejected");

// ---------------------------------------------------------------------------
// K3: raw strings  r#*"body"#*

/// H opening hashes (0..=2), body of exactly L characters over {", #, a} chosen
/// symbolically *such that it does not contain the terminator*, then `"` + H
/// hashes + one trailing character: the body is returned verbatim, the hash
/// count is reported, and exactly the literal is consumed.
fn raw_string<const H: usize, const L: usize>() {
    let mut src = [0u8; 16];
    let mut n = 0;
    let mut i = 0;
    while i < H {
        src[n] = b'#';
        n += 1;
        i += 1;
    }
    src[n] = b'"';
    n += 1;
    let body_at = n;
    let mut i = 0;
    while i < L {
        let c = match kani::any::<u8>() % 3 {
            0 => b'"',
            1 => b'#',
            _ => b'a',
        };
        src[n] = c;
        n += 1;
        i += 1;
    }
    // the body must not contain `"` followed by H hashes (that would end it early)
    let mut p = body_at;
    while p < n {
        if src[p] == b'"' {
            let mut cnt = 0;
            let mut q = p + 1;
            while q < n && src[q] == b'#' {
                cnt += 1;
                q += 1;
            }
            // hashes of the body that directly precede the real terminator count too
            kani::assume(cnt < H);
        }
        p += 1;
    }
    // a body ending in hashes directly before the closing quote is fine; a body
    // whose last char is `"` is fine only if H > 0 (checked above with cnt = 0 < H)
    let body_end = n;
    src[n] = b'"';
    n += 1;
    let mut i = 0;
    while i < H {
        src[n] = b'#';
        n += 1;
        i += 1;
    }
    let lit_end = n;
    src[n] = b'z';
    n += 1;
    let input = ascii_str(&src, n);
    let r = lex_raw_string_as_str(input);
    match &r {
        Ok(((body, hashes), rest)) => {
            assert!(*hashes as usize == H, "the number of # is reported");
            assert!(body.len() == L && std::ptr::eq(body.as_ptr(), unsafe { input.as_ptr().add(body_at) }), "the raw body is taken verbatim");
            assert!(is_suffix_at(input, rest, lit_end), "exactly the literal is consumed");
            kani::cover!(H == 0 || (L > 0 && src[body_at] == b'"'), "body containing a quote");
            kani::cover!(H < 2 || L < 2 || (src[body_at] == b'"' && src[body_at + 1] == b'#'), "body containing a quote and a run of # one shorter than the delimiter");
        }
        Err(_) => {
            assert!(false, "a well-formed raw string must be accepted");
        }
    }
    std::mem::forget(r);
}

#[kani::proof]
#[kani::stub(std::mem::drop, crate::lex::verif_kani::common::mem_drop__leak)]
#[kani::unwind(10)]
fn lex_raw_string__h0_l2() {
    raw_string::<0, 2>()
}

// NOT REGISTERED: h1_l2, h1_l3, h2_l2, h2_l3 give no result in 500 s (only h0_l2 finishes).
#[kani::proof]
#[kani::stub(std::mem::drop, crate::lex::verif_kani::common::mem_drop__leak)]
#[kani::unwind(10)]
fn lex_raw_string__h1_l2() {
    raw_string::<1, 2>()
}

#[kani::proof]
#[kani::stub(std::mem::drop, crate::lex::verif_kani::common::mem_drop__leak)]
#[kani::unwind(12)]
fn lex_raw_string__h1_l3() {
    raw_string::<1, 3>()
}

#[kani::proof]
#[kani::stub(std::mem::drop, crate::lex::verif_kani::common::mem_drop__leak)]
#[kani::unwind(12)]
fn lex_raw_string__h2_l2() {
    raw_string::<2, 2>()
}

#[kani::proof]
#[kani::stub(std::mem::drop, crate::lex::verif_kani::common::mem_drop__leak)]
#[kani::unwind(14)]
fn lex_raw_string__h2_l3() {
    raw_string::<2, 3>()
}

/// Unterminated raw strings and a missing opening quote are rejected.
#[kani::proof]
#[kani::unwind(8)]
fn lex_raw_string__malformed_rejected() {
    let r = lex_raw_string_as_str("#\"ab\"");
    assert!(matches!(r, Err((LexErrorKind::MissingEndingQuote, _))), "one # opened, none closed");
    std::mem::forget(r);
    let r = lex_raw_string_as_str("\"ab");
    assert!(matches!(r, Err((LexErrorKind::MissingEndingQuote, _))));
    std::mem::forget(r);
    let r = lex_raw_string_as_str("#a");
    assert!(matches!(r, Err((LexErrorKind::ExpectedName(_), _))));
    std::mem::forget(r);
}
