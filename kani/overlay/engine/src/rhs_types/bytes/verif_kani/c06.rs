//! C06 obligations on the byte-string literal lexers (engine/src/rhs_types/bytes.rs).
use super::super::*;
use crate::lex::verif_kani::common::*;

/// K1 (hex): for every ASCII string of exactly 3 bytes:
/// Ok((b, rest)) <=> the first two characters are hex digits; then b is their
/// value and rest is exactly the third character.  Anything else is an error.
#[kani::proof]
#[kani::unwind(6)]
fn hex_byte__exact_digits() {
    let buf = [any_ascii(), any_ascii(), any_ascii()];
    let input = ascii_str(&buf, 3);
    let want = match (hex_val(buf[0]), hex_val(buf[1])) {
        (Some(h), Some(l)) => Some(h * 16 + l),
        _ => None,
    };
    match hex_byte(input) {
        Ok((b, rest)) => {
            assert!(want.is_some(), "an escape that is not exactly two hex digits must be rejected");
            assert!(Some(b) == want, "\\xHH denotes the byte HH");
            assert!(is_suffix_at(input, rest, 2), "exactly two characters are consumed");
            kani::cover!(b == 0xff);
            kani::cover!(b == 0x0f);
        }
        Err(e) => {
            assert!(want.is_none(), "two hex digits must be accepted");
            kani::cover!(buf[0] == b'+', "sign in first position is rejected");
            kani::cover!(buf[0] == b'-');
            kani::cover!(buf[1] == b' ');
            std::mem::forget(e);
        }
    }
}

/// K1 (hex, short input): fewer than two characters is an error.
#[kani::proof]
#[kani::unwind(6)]
fn hex_byte__short_input_rejected() {
    let buf = [any_ascii()];
    let n: usize = if kani::any() { 0 } else { 1 };
    let r = hex_byte(ascii_str(&buf, n));
    assert!(r.is_err(), "an incomplete escape is rejected");
    std::mem::forget(r);
}

/// K1 (oct): for every ASCII string of exactly 4 bytes:
/// Ok <=> the first three characters are octal digits and the value fits a byte.
#[kani::proof]
#[kani::unwind(7)]
fn oct_byte__exact_digits() {
    let buf = [any_ascii(), any_ascii(), any_ascii(), any_ascii()];
    let input = ascii_str(&buf, 4);
    let want = match (oct_val(buf[0]), oct_val(buf[1]), oct_val(buf[2])) {
        (Some(a), Some(b), Some(c)) if a <= 3 => Some(a * 64 + b * 8 + c),
        _ => None,
    };
    match oct_byte(input) {
        Ok((b, rest)) => {
            assert!(want.is_some(), "an escape that is not exactly three octal digits (<= 377) must be rejected");
            assert!(Some(b) == want, "\\OOO denotes the byte OOO");
            assert!(is_suffix_at(input, rest, 3), "exactly three characters are consumed");
            kani::cover!(b == 0o377);
        }
        Err(e) => {
            assert!(want.is_none(), "three octal digits <= 377 must be accepted");
            kani::cover!(buf[0] == b'4', "400 and above do not fit a byte");
            kani::cover!(buf[0] == b'+');
            kani::cover!(buf[2] == b'8');
            std::mem::forget(e);
        }
    }
}

/// K1 (non-ASCII neighbourhood): a multi-byte character inside the window is
/// never a digit and never splits a character.
#[kani::proof]
#[kani::unwind(8)]
fn fixed_byte__multibyte_char_rejected() {
    let r = hex_byte("é1");
    assert!(r.is_err());
    std::mem::forget(r);
    let r = hex_byte("1é");
    assert!(r.is_err());
    std::mem::forget(r);
    let r = oct_byte("12é");
    assert!(r.is_err());
    std::mem::forget(r);
}

// ---------------------------------------------------------------------------
// K4: separator-delimited hex pairs  HH(sep HH)+

fn is_sep(b: u8) -> bool {
    b == b':' || b == b'-' || b == b'.'
}

/// Every ASCII string of exactly 6 bytes "hh?hh?": accepted <=> hh sep hh with
/// hex digits (a sign is not a digit) and no dangling separator behind; the bytes
/// are exactly the two values; exactly the 5 characters are consumed.
#[kani::proof]
#[kani::unwind(4)]
fn lex_byte_string__two_pairs() {
    let buf = [any_ascii(), any_ascii(), any_ascii(), any_ascii(), any_ascii(), any_ascii()];
    let input = ascii_str6(&buf);
    let p0 = match (hex_val(buf[0]), hex_val(buf[1])) {
        (Some(h), Some(l)) => Some(h * 16 + l),
        _ => None,
    };
    let p1 = match (hex_val(buf[3]), hex_val(buf[4])) {
        (Some(h), Some(l)) => Some(h * 16 + l),
        _ => None,
    };
    let ok = p0.is_some() && is_sep(buf[2]) && p1.is_some() && !is_sep(buf[5]);
    let r = lex_byte_string(input);
    match &r {
        Ok((bytes, rest)) => {
            assert!(ok, "only HH sep HH (not followed by a dangling separator) is accepted");
            assert!(bytes.data.len() == 2 && bytes.data[0] == p0.unwrap() && bytes.data[1] == p1.unwrap(), "the bytes are the pair values in order");
            assert!(matches!(bytes.format, BytesFormat::Byte));
            assert!(is_suffix_at(input, rest, 5), "exactly the literal's characters are consumed");
            kani::cover!(buf[2] == b'-', "dash separator");
            kani::cover!(buf[2] == b'.', "dot separator");
            kani::cover!(bytes.data[0] == 0xff && bytes.data[1] == 0, "extreme byte values");
        }
        Err(_) => {
            assert!(!ok, "HH sep HH must be accepted");
            kani::cover!(p0.is_some() && !is_sep(buf[2]), "a single pair without separator is rejected");
            kani::cover!(p0.is_some() && is_sep(buf[2]) && p1.is_none(), "second pair malformed");
            kani::cover!(p0.is_some() && is_sep(buf[2]) && p1.is_some() && is_sep(buf[5]), "dangling separator");
            kani::cover!(buf[0] == b'+' && hex_val(buf[1]).is_some(), "sign inside a pair is rejected");
        }
    }
    std::mem::forget(r);
}

/// loop-free ASCII view of a 6-byte buffer (keeps the unwind bound at the lexer's own need)
fn ascii_str6(buf: &[u8; 6]) -> &str {
    assert!(buf[0] < 128 && buf[1] < 128 && buf[2] < 128 && buf[3] < 128 && buf[4] < 128 && buf[5] < 128);
    unsafe { std::str::from_utf8_unchecked(buf) }
}

/// Three pairs, concrete (regression obligation): mixed separators, exact bytes.
#[kani::proof]
#[kani::unwind(5)]
fn lex_byte_string__three_pairs_concrete() {
    let s: &'static str = "01:fE-7f;";
    let r = lex_byte_string(s);
    assert!(matches!(&r, Ok((b, rest)) if b.data.len() == 3 && b.data[0] == 1 && b.data[1] == 0xfe && b.data[2] == 0x7f && is_suffix_at(s, rest, 8)));
    kani::cover!(r.is_ok());
    std::mem::forget(r);
}

// ---------------------------------------------------------------------------
// K2: quoted strings.  Source items of a CONSTANT kind with symbolic payload
// (every byte value in the escape forms), so that the input length is constant.
// kind: 0 plain ASCII char (not `"` or `\`), 1 `\"`, 2 `\\`, 3 `\xHH`, 4 `\OOO`,
// 5 the two-byte character U+0080..U+07FF written raw.

const fn item_len(kind: u8) -> usize {
    match kind {
        0 => 1,
        1 | 2 | 5 => 2,
        _ => 4,
    }
}

const fn item_out(kind: u8) -> usize {
    if kind == 5 { 2 } else { 1 }
}

fn put_item(kind: u8, payload: u8, src: &mut [u8], n: usize, out: &mut [u8], m: usize) {
    const HEX: &[u8; 16] = b"0123456789abcdef";
    match kind {
        0 => {
            kani::assume(payload < 128 && payload != b'"' && payload != b'\\');
            src[n] = payload;
            out[m] = payload;
        }
        1 => {
            src[n] = b'\\';
            src[n + 1] = b'"';
            out[m] = b'"';
        }
        2 => {
            src[n] = b'\\';
            src[n + 1] = b'\\';
            out[m] = b'\\';
        }
        3 => {
            src[n] = b'\\';
            src[n + 1] = b'x';
            src[n + 2] = HEX[(payload >> 4) as usize];
            src[n + 3] = HEX[(payload & 15) as usize];
            out[m] = payload;
        }
        4 => {
            src[n] = b'\\';
            src[n + 1] = b'0' + (payload >> 6);
            src[n + 2] = b'0' + ((payload >> 3) & 7);
            src[n + 3] = b'0' + (payload & 7);
            out[m] = payload;
        }
        _ => {
            // a raw (unescaped) two-byte UTF-8 character stands for its own two bytes
            let lead = 0xc2 + (payload >> 6) % 30;
            let cont = 0x80 + (payload & 0x3f);
            src[n] = lead;
            src[n + 1] = cont;
            out[m] = lead;
            out[m + 1] = cont;
        }
    }
}

/// A body of two items of kinds K1, K2 followed by the closing quote and one more
/// character decodes to exactly the denoted bytes and consumes exactly the literal
/// (LEN = total source length, OUT = decoded length: constants of the obligation).
fn quoted_items<const K1: u8, const K2: u8, const LEN: usize, const OUT: usize>() {
    assert!(LEN == item_len(K1) + item_len(K2) + 2 && OUT == item_out(K1) + item_out(K2));
    let mut src = [0u8; LEN];
    let mut out = [0u8; OUT];
    put_item(K1, kani::any(), &mut src, 0, &mut out, 0);
    put_item(K2, kani::any(), &mut src, item_len(K1), &mut out, item_out(K1));
    src[LEN - 2] = b'"';
    src[LEN - 1] = b'z';
    // valid UTF-8 by construction (ASCII + well-formed two-byte sequences)
    let input = unsafe { std::str::from_utf8_unchecked(&src) };
    let r = lex_quoted_string_as_vec(input);
    match &r {
        Ok((v, rest)) => {
            assert!(v.len() == OUT, "one byte per escape / plain character, the character's bytes otherwise");
            let mut i = 0;
            while i < OUT {
                assert!(v[i] == out[i], "each item denotes its documented byte");
                i += 1;
            }
            assert!(is_suffix_at(input, rest, LEN - 1), "consumes up to and including the closing quote");
            kani::cover!(v[0] == 0xff || K1 < 3, "byte 0xff through an escape");
            kani::cover!(v[0] == 0 || K1 < 3, "byte 0 through an escape");
        }
        Err(_) => {
            assert!(false, "a well-formed quoted string must be accepted");
        }
    }
    std::mem::forget(r);
}

#[kani::proof]
#[kani::unwind(10)]
fn lex_quoted_string__hex_then_plain() {
    quoted_items::<3, 0, 7, 2>()
}

#[kani::proof]
#[kani::unwind(10)]
fn lex_quoted_string__oct_then_quote_escape() {
    quoted_items::<4, 1, 8, 2>()
}

#[kani::proof]
#[kani::unwind(10)]
fn lex_quoted_string__backslash_escape_then_hex() {
    quoted_items::<2, 3, 8, 2>()
}

#[kani::proof]
#[kani::unwind(10)]
fn lex_quoted_string__plain_then_oct() {
    quoted_items::<0, 4, 7, 2>()
}

#[kani::proof]
#[kani::unwind(10)]
fn lex_quoted_string__two_byte_char_then_plain() {
    quoted_items::<5, 0, 5, 3>()
}

/// `\x` followed by ANY two ASCII characters: accepted <=> both are hex digits.
#[kani::proof]
#[kani::unwind(10)]
fn lex_quoted_string__hex_escape_needs_two_hex_digits() {
    let c0 = any_ascii();
    let c1 = any_ascii();
    let src = [b'\\', b'x', c0, c1, b'"', b'z'];
    let input = ascii_str6(&src);
    let want = match (hex_val(c0), hex_val(c1)) {
        (Some(h), Some(l)) => Some(h * 16 + l),
        _ => None,
    };
    let r = lex_quoted_string_as_vec(input);
    match &r {
        Ok((v, rest)) => {
            assert!(want.is_some(), "an escape that is not exactly two hex digits is rejected");
            assert!(v.len() == 1 && Some(v[0]) == want && is_suffix_at(input, rest, 5));
            kani::cover!(v[0] == 0xab, "mixed-case / letter digits");
        }
        Err(_) => {
            assert!(want.is_none(), "two hex digits are accepted");
            kani::cover!(hex_val(c0).is_some() && c1 == b'"', "one hex digit then the closing quote");
            kani::cover!(c0 == b'+', "sign");
        }
    }
    std::mem::forget(r);
}

/// `\` followed by an octal digit and ANY two ASCII characters: accepted <=> all
/// three are octal digits and the value fits a byte.
#[kani::proof]
#[kani::unwind(10)]
fn lex_quoted_string__oct_escape_needs_three_oct_digits() {
    let c0 = any_ascii();
    kani::assume(b'0' <= c0 && c0 <= b'7');
    let c1 = any_ascii();
    let c2 = any_ascii();
    let src = [b'\\', c0, c1, c2, b'"', b'z'];
    let input = ascii_str6(&src);
    let want = match (oct_val(c0), oct_val(c1), oct_val(c2)) {
        (Some(a), Some(b), Some(c)) if a <= 3 => Some(a * 64 + b * 8 + c),
        _ => None,
    };
    let r = lex_quoted_string_as_vec(input);
    match &r {
        Ok((v, rest)) => {
            assert!(want.is_some(), "an escape that is not exactly three octal digits <= 377 is rejected");
            assert!(v.len() == 1 && Some(v[0]) == want && is_suffix_at(input, rest, 5));
            kani::cover!(v[0] == 0o377, "largest octal escape");
        }
        Err(_) => {
            assert!(want.is_none(), "three octal digits <= 377 are accepted");
            kani::cover!(oct_val(c1).is_some() && c2 == b'"', "two octal digits then the closing quote");
            kani::cover!(c0 == b'4' && oct_val(c1).is_some() && oct_val(c2).is_some(), "400 and above");
        }
    }
    std::mem::forget(r);
}

/// Malformed quoted strings: unterminated -> MissingEndingQuote.
#[kani::proof]
#[kani::unwind(6)]
fn lex_quoted_string__unterminated_rejected() {
    let c = any_ascii();
    kani::assume(c != b'"' && c != b'\\');
    let buf = [c, b'a'];
    let r = lex_quoted_string_as_vec(unsafe { std::str::from_utf8_unchecked(&buf) });
    assert!(matches!(&r, Err((LexErrorKind::MissingEndingQuote, _))), "unterminated strings are rejected");
    kani::cover!(r.is_err());
    std::mem::forget(r);
    // lone backslash at the end
    let r = lex_quoted_string_as_vec("a\\");
    assert!(matches!(&r, Err((LexErrorKind::MissingEndingQuote, _))));
    std::mem::forget(r);
}

/// An escape other than `"` `\` `x` `0`-`7` -> InvalidCharacterEscape.
#[kani::proof]
#[kani::unwind(6)]
fn lex_quoted_string__unknown_escape_rejected() {
    let e = any_ascii();
    kani::assume(e != b'"' && e != b'\\' && e != b'x' && !(b'0'..=b'7').contains(&e));
    let buf = [b'\\', e, b'"'];
    let r = lex_quoted_string_as_vec(unsafe { std::str::from_utf8_unchecked(&buf) });
    assert!(matches!(&r, Err((LexErrorKind::InvalidCharacterEscape, _))), "unknown escapes are rejected");
    kani::cover!(e == b'n', "\\n is not an escape of this language");
    kani::cover!(e == b'8');
    std::mem::forget(r);
}

// ---------------------------------------------------------------------------
// K3: raw strings  r#*"body"#*

/// H opening hashes (0..=2), body of exactly L characters over {", #, a} chosen
/// symbolically *such that it does not contain the terminator*, then `"` + H
/// hashes + one trailing character: the body is returned verbatim, the hash
/// count is reported, and exactly the literal is consumed.
fn raw_string<const H: usize, const L: usize>() {
    let mut src = [0u8; 16];
    let mut n = 0;
    let mut i = 0;
    while i < H {
        src[n] = b'#';
        n += 1;
        i += 1;
    }
    src[n] = b'"';
    n += 1;
    let body_at = n;
    let mut i = 0;
    while i < L {
        let c = match kani::any::<u8>() % 3 {
            0 => b'"',
            1 => b'#',
            _ => b'a',
        };
        src[n] = c;
        n += 1;
        i += 1;
    }
    // the body must not contain `"` followed by H hashes (that would end it early)
    let mut p = body_at;
    while p < n {
        if src[p] == b'"' {
            let mut cnt = 0;
            let mut q = p + 1;
            while q < n && src[q] == b'#' {
                cnt += 1;
                q += 1;
            }
            // hashes of the body that directly precede the real terminator count too
            kani::assume(cnt < H);
        }
        p += 1;
    }
    // a body ending in hashes directly before the closing quote is fine; a body
    // whose last char is `"` is fine only if H > 0 (checked above with cnt = 0 < H)
    let body_end = n;
    src[n] = b'"';
    n += 1;
    let mut i = 0;
    while i < H {
        src[n] = b'#';
        n += 1;
        i += 1;
    }
    let lit_end = n;
    src[n] = b'z';
    n += 1;
    let input = ascii_str(&src, n);
    let r = lex_raw_string_as_str(input);
    match &r {
        Ok(((body, hashes), rest)) => {
            assert!(*hashes as usize == H, "the number of # is reported");
            assert!(body.len() == L && std::ptr::eq(body.as_ptr(), unsafe { input.as_ptr().add(body_at) }), "the raw body is taken verbatim");
            assert!(is_suffix_at(input, rest, lit_end), "exactly the literal is consumed");
            kani::cover!(H == 0 || (L > 0 && src[body_at] == b'"'), "body containing a quote");
            kani::cover!(H < 2 || L < 2 || (src[body_at] == b'"' && src[body_at + 1] == b'#'), "body containing a quote and a run of # one shorter than the delimiter");
        }
        Err(_) => {
            assert!(false, "a well-formed raw string must be accepted");
        }
    }
    std::mem::forget(r);
}

#[kani::proof]
#[kani::unwind(10)]
fn lex_raw_string__h0_l2() {
    raw_string::<0, 2>()
}

#[kani::proof]
#[kani::unwind(10)]
fn lex_raw_string__h1_l2() {
    raw_string::<1, 2>()
}

#[kani::proof]
#[kani::unwind(12)]
fn lex_raw_string__h1_l3() {
    raw_string::<1, 3>()
}

#[kani::proof]
#[kani::unwind(12)]
fn lex_raw_string__h2_l2() {
    raw_string::<2, 2>()
}

#[kani::proof]
#[kani::unwind(14)]
fn lex_raw_string__h2_l3() {
    raw_string::<2, 3>()
}

/// Unterminated raw strings and a missing opening quote are rejected.
#[kani::proof]
#[kani::unwind(8)]
fn lex_raw_string__malformed_rejected() {
    let r = lex_raw_string_as_str("#\"ab\"");
    assert!(matches!(r, Err((LexErrorKind::MissingEndingQuote, _))), "one # opened, none closed");
    std::mem::forget(r);
    let r = lex_raw_string_as_str("\"ab");
    assert!(matches!(r, Err((LexErrorKind::MissingEndingQuote, _))));
    std::mem::forget(r);
    let r = lex_raw_string_as_str("#a");
    assert!(matches!(r, Err((LexErrorKind::ExpectedName(_), _))));
    std::mem::forget(r);
}
