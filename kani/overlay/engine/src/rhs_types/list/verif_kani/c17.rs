//! C17 obligations: list names are made of a-z, 0-9, _ and inner dots.
use super::super::*;

fn allowed(b: u8) -> bool {
    matches!(b, b'a'..=b'z' | b'0'..=b'9' | b'_' | b'.')
}

/// K2: for every ASCII string of exactly N bytes after `$`:
/// accepted <=> the maximal run over [a-z0-9_.] is non-empty and neither starts
/// nor ends with a dot; then name == that run and rest == the remainder.
fn list_name_lex<const N: usize, const M: usize>() {
    list_name_lex_over::<N, M>(false)
}

/// `small`: bytes range over the representative alphabet {a, 0, _, ., (, space, A} only
/// (one member of every class the lexer distinguishes) instead of all of ASCII.
fn list_name_lex_over<const N: usize, const M: usize>(small: bool) {
    let mut buf = [0u8; M];
    buf[0] = b'$';
    let mut i = 0;
    while i < N {
        let b: u8 = kani::any();
        kani::assume(b < 128);
        if small {
            kani::assume(matches!(b, b'a' | b'0' | b'_' | b'.' | b'(' | b' ' | b'A'));
        }
        buf[1 + i] = b;
        i += 1;
    }
    let input = unsafe { std::str::from_utf8_unchecked(&buf[..1 + N]) };
    // reference
    let mut run = 0;
    while run < N && allowed(buf[1 + run]) {
        run += 1;
    }
    let ok = run > 0 && buf[1] != b'.' && buf[run] != b'.';
    match ListName::lex(input) {
        Ok((name, rest)) => {
            assert!(ok, "accepted list name must be a non-empty run of a-z0-9_. without leading/trailing dot");
            assert!(name.as_str().as_bytes() == &buf[1..1 + run], "the name is exactly the maximal run");
            assert!(rest.as_bytes() == &buf[1 + run..1 + N], "exactly the name's characters are consumed");
            kani::cover!(run == N, "whole input is the name");
            kani::cover!(N == 1 || run < N, "name followed by something else");
            std::mem::forget(name);
        }
        Err(e) => {
            assert!(!ok, "a well-formed list name must be accepted");
            kani::cover!(run == 0, "rejected: empty name");
            kani::cover!(run > 0, "rejected: leading or trailing dot");
            std::mem::forget(e);
        }
    }
}

#[kani::proof]
#[kani::unwind(4)]
fn list_name_lex__alphabet_len1() {
    list_name_lex::<1, 2>()
}

#[kani::proof]
#[kani::unwind(5)]
fn list_name_lex__alphabet_len2() {
    list_name_lex::<2, 3>()
}

#[kani::proof]
#[kani::unwind(6)]
fn list_name_lex__alphabet_len3() {
    list_name_lex::<3, 4>()
}

#[kani::proof]
#[kani::unwind(6)]
fn list_name_lex__class_alphabet_len3() {
    list_name_lex_over::<3, 4>(true)
}

// (length 4 over the class alphabet: > 13 GB, not registered)

/// `$` alone and a missing `$` are rejected.
#[kani::proof]
#[kani::unwind(4)]
fn list_name_lex__needs_dollar_and_name() {
    let r = ListName::lex("$");
    assert!(r.is_err());
    std::mem::forget(r);
    let b: u8 = kani::any();
    kani::assume(b < 128 && b != b'$');
    let buf = [b, b'a'];
    let s = unsafe { std::str::from_utf8_unchecked(&buf) };
    let r = ListName::lex(s);
    assert!(r.is_err(), "a list reference must start with $");
    std::mem::forget(r);
}
