//! C01 obligations: per-family IP order, IPv4 and IPv6 mutually unordered.
use super::super::*;
use crate::ast::field_expr::OrderingOp;
use crate::ast::field_expr::verif_kani::c01::{any_ordering_op, reference};
use std::cmp::Ordering;
use std::net::{IpAddr, Ipv4Addr, Ipv6Addr};

pub(crate) fn any_ip() -> IpAddr {
    if kani::any() {
        IpAddr::V4(Ipv4Addr::from(kani::any::<u32>()))
    } else {
        IpAddr::V6(Ipv6Addr::from(kani::any::<u128>()))
    }
}

/// K3: strict_partial_cmp orders within a family by numeric address value and
/// declares different families unordered (including v4-mapped v6 vs v4).
#[kani::proof]
fn ip_strict_partial_cmp__per_family_order() {
    let a = any_ip();
    let b = any_ip();
    let got = a.strict_partial_cmp(&b);
    match (a, b) {
        (IpAddr::V4(x), IpAddr::V4(y)) => {
            assert!(got == Some(u32::from(x).cmp(&u32::from(y))), "IPv4 order is numeric");
        }
        (IpAddr::V6(x), IpAddr::V6(y)) => {
            assert!(got == Some(u128::from(x).cmp(&u128::from(y))), "IPv6 order is numeric");
        }
        _ => {
            assert!(got.is_none(), "an IPv4 and an IPv6 address are unordered");
        }
    }
    kani::cover!(matches!((a, b), (IpAddr::V4(_), IpAddr::V6(_))));
    kani::cover!(matches!((a, b), (IpAddr::V6(x), IpAddr::V4(y)) if x.to_ipv4_mapped() == Some(y)));
    kani::cover!(got == Some(Ordering::Greater));
}

/// K4: the exact expression the IP comparison object evaluates.
#[kani::proof]
fn ip_compare_expression__reference() {
    let a = any_ip();
    let b = any_ip();
    let op = any_ordering_op();
    let got = op.matches_opt(a.strict_partial_cmp(&b));
    let want = match (a, b) {
        (IpAddr::V4(x), IpAddr::V4(y)) => reference(op, u32::from(x).cmp(&u32::from(y))),
        (IpAddr::V6(x), IpAddr::V6(y)) => reference(op, u128::from(x).cmp(&u128::from(y))),
        _ => op == OrderingOp::NotEqual,
    };
    assert!(got == want, "op(a, b) on IP addresses follows per-family order; mixed families satisfy only !=");
}
