//! C06 obligation on explicit IP ranges `a..b` (`IpRange::lex`): accepted iff both bounds are
//! of the same family and a <= b (so `a..a` is a valid single-address range); the range
//! denotes exactly [a, b]; reversed or mixed-family ranges are rejected.
//!
//! Modular: the address parser `parse_addr` (std `IpAddr::from_str`, trusted) is replaced by
//! a stub that returns the two addresses chosen by the harness, so the bounds logic is
//! decided for EVERY pair of addresses of either family; `std::mem::drop` leaks (dropped
//! `LexErrorKind`s are not part of any postcondition).
use super::super::*;

static mut ADDRS: [IpAddr; 2] = [IpAddr::V4(Ipv4Addr::UNSPECIFIED), IpAddr::V4(Ipv4Addr::UNSPECIFIED)];
static mut CALLS: usize = 0;

fn parse_addr__harness_chosen(input: &str) -> Result<IpAddr, LexError<'_>> {
    let _ = input;
    unsafe {
        let i = CALLS;
        CALLS += 1;
        Ok(ADDRS[i & 1])
    }
}

fn leak<T>(x: T) {
    std::mem::forget(x)
}

fn any_addr(v4: bool) -> IpAddr {
    if v4 {
        IpAddr::V4(Ipv4Addr::from(kani::any::<u32>()))
    } else {
        IpAddr::V6(Ipv6Addr::from(kani::any::<u128>()))
    }
}

fn range_bounds(a_is4: bool, b_is4: bool) {
    let a = any_addr(a_is4);
    let b = any_addr(b_is4);
    unsafe {
        ADDRS = [a, b];
        CALLS = 0;
    }
    let r = IpRange::lex("1..2 x");
    let ordered = match (a, b) {
        (IpAddr::V4(x), IpAddr::V4(y)) => u32::from(x) <= u32::from(y),
        (IpAddr::V6(x), IpAddr::V6(y)) => u128::from(x) <= u128::from(y),
        _ => false,
    };
    match &r {
        Ok((IpRange::Explicit(ExplicitIpRange::V4(range)), rest)) => {
            assert!(ordered && a_is4 && b_is4, "only an ordered IPv4 pair gives an IPv4 range");
            assert!(IpAddr::V4(*range.start()) == a && IpAddr::V4(*range.end()) == b, "the range denotes exactly [a, b]");
            assert!(rest.len() == 2, "exactly the literal's characters are consumed");
        }
        Ok((IpRange::Explicit(ExplicitIpRange::V6(range)), rest)) => {
            assert!(ordered && !a_is4 && !b_is4, "only an ordered IPv6 pair gives an IPv6 range");
            assert!(IpAddr::V6(*range.start()) == a && IpAddr::V6(*range.end()) == b, "the range denotes exactly [a, b]");
            assert!(rest.len() == 2, "exactly the literal's characters are consumed");
        }
        Ok(_) => {
            assert!(false, "a..b must lex to an explicit range");
        }
        Err((LexErrorKind::IncompatibleRangeBounds, _)) => {
            assert!(!ordered, "a same-family range with a <= b (incl. a..a) must be accepted");
        }
        Err(_) => {
            assert!(false, "unexpected error kind");
        }
    }
    kani::cover!(ordered && a == b, "single-address range a..a");
    kani::cover!(!ordered);
    std::mem::forget(r);
}

macro_rules! range_case {
    ($name:ident, $unwind:literal, $a4:literal, $b4:literal) => {
        #[kani::proof]
        #[kani::unwind($unwind)]
        #[kani::stub(crate::rhs_types::ip::parse_addr, crate::rhs_types::ip::verif_kani::c06::parse_addr__harness_chosen)]
        #[kani::stub(std::mem::drop, crate::rhs_types::ip::verif_kani::c06::leak)]
        fn $name() {
            range_bounds($a4, $b4)
        }
    };
}
range_case!(ip_range_lex__v4_bounds, 8, true, true);
range_case!(ip_range_lex__v6_bounds, 18, false, false);
range_case!(ip_range_lex__mixed_families_rejected, 8, true, false);
