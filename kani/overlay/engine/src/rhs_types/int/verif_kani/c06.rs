//! C06 obligations on integer literals and a..b integer ranges.
use super::super::*;
use crate::lex::verif_kani::common::*;

/// K5: every ASCII string of exactly N bytes: `i64::lex` agrees with the
/// reference on acceptance, value and consumed length.
fn int_lex<const N: usize>() {
    let mut buf = [0u8; N];
    let mut i = 0;
    while i < N {
        buf[i] = any_ascii();
        i += 1;
    }
    let input = ascii_str(&buf, N);
    let want = ref_int(&buf, N);
    match i64::lex(input) {
        Ok((v, rest)) => {
            assert!(want.is_some(), "malformed integer literal accepted");
            let (wv, wn) = want.unwrap();
            assert!(v == wv, "integer literal denotes its documented value");
            assert!(is_suffix_at(input, rest, wn), "exactly the literal's characters are consumed");
            kani::cover!(v < 0);
            kani::cover!(N >= 3 && buf[1] == b'x');
            kani::cover!(N >= 2 && buf[0] == b'0' && v > 0);
        }
        Err(e) => {
            assert!(want.is_none(), "well-formed integer literal rejected");
            std::mem::forget(e);
        }
    }
}

#[kani::proof]
#[kani::unwind(5)]
fn i64_lex__all_ascii_len1() {
    int_lex::<1>()
}

#[kani::proof]
#[kani::unwind(6)]
fn i64_lex__all_ascii_len2() {
    int_lex::<2>()
}

#[kani::proof]
#[kani::unwind(7)]
fn i64_lex__all_ascii_len3() {
    int_lex::<3>()
}

#[kani::proof]
#[kani::unwind(8)]
fn i64_lex__all_ascii_len4() {
    int_lex::<4>()
}

/// Boundary literals over the full i64 range (concrete inputs: regression
/// obligations, not a proof over all literals).
#[kani::proof]
#[kani::unwind(26)]
fn i64_lex__boundary_literals() {
    let r = i64::lex("9223372036854775807");
    assert!(matches!(r, Ok((i64::MAX, ""))));
    std::mem::forget(r);
    let r = i64::lex("-9223372036854775808");
    assert!(matches!(r, Ok((i64::MIN, ""))));
    std::mem::forget(r);
    let r = i64::lex("9223372036854775808");
    assert!(r.is_err(), "out-of-range numbers are rejected");
    std::mem::forget(r);
    let r = i64::lex("-9223372036854775809");
    assert!(r.is_err(), "out-of-range numbers are rejected");
    std::mem::forget(r);
    let r = i64::lex("0x7fffffffffffffff");
    assert!(matches!(r, Ok((i64::MAX, ""))));
    std::mem::forget(r);
    let r = i64::lex("0x8000000000000000");
    assert!(r.is_err());
    std::mem::forget(r);
    let r = i64::lex("0777777777777777777777");
    assert!(matches!(r, Ok((i64::MAX, ""))));
    std::mem::forget(r);
    let r = i64::lex("01000000000000000000000");
    assert!(r.is_err());
    std::mem::forget(r);
}

/// K6: `a..b` is accepted <=> a <= b and denotes a..=b; a single value a
/// denotes a..=a.  One decimal digit (optionally negative) per bound, every
/// combination; exact consumption.
#[kani::proof]
#[kani::unwind(8)]
fn int_range_lex__ordered_bounds() {
    let a: u8 = kani::any();
    let b: u8 = kani::any();
    kani::assume(a <= 9 && b <= 9);
    let na: bool = kani::any();
    let nb: bool = kani::any();
    let mut buf = [0u8; 8];
    let mut n = 0;
    if na {
        buf[n] = b'-';
        n += 1;
    }
    buf[n] = b'0' + a;
    n += 1;
    buf[n] = b'.';
    buf[n + 1] = b'.';
    n += 2;
    if nb {
        buf[n] = b'-';
        n += 1;
    }
    buf[n] = b'0' + b;
    n += 1;
    let lit = n;
    buf[n] = b' ';
    n += 1;
    let input = ascii_str(&buf, n);
    let va = if na { -(a as i64) } else { a as i64 };
    let vb = if nb { -(b as i64) } else { b as i64 };
    match IntRange::lex(input) {
        Ok((r, rest)) => {
            assert!(va <= vb, "reversed ranges are rejected");
            let r: std::ops::RangeInclusive<i64> = r.into();
            assert!(*r.start() == va && *r.end() == vb, "a..b denotes a..=b");
            assert!(is_suffix_at(input, rest, lit));
            kani::cover!(va == vb);
        }
        Err(e) => {
            assert!(va > vb, "ordered ranges are accepted");
            assert!(matches!(e.0, LexErrorKind::IncompatibleRangeBounds));
            std::mem::forget(e);
        }
    }
}

/// single value => a..=a
#[kani::proof]
#[kani::unwind(8)]
fn int_range_lex__single_value() {
    let a: u8 = kani::any();
    kani::assume(a <= 9);
    let dot: bool = kani::any();
    let buf = [b'0' + a.max(1), if dot { b'.' } else { b'}' }, b'x'];
    let input = ascii_str(&buf, 3);
    match IntRange::lex(input) {
        Ok((r, rest)) => {
            let r: std::ops::RangeInclusive<i64> = r.into();
            let v = a.max(1) as i64;
            assert!(*r.start() == v && *r.end() == v, "a single value a denotes a..=a");
            assert!(is_suffix_at(input, rest, 1), "a single dot is not part of the literal");
        }
        Err(e) => {
            std::mem::forget(e);
            assert!(false);
        }
    }
}
