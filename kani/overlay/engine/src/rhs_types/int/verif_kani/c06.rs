//! C06 obligations on integer literals and a..b integer ranges
//! (engine/src/rhs_types/int.rs).
//!
//! `i64::lex` = radix selection (`expect("0x")` / leading 0 / optional `-`)
//!            + `lex_digits` (maximal run of 0-9a-fA-F)
//!            + `parse_number` (from_str_radix over exactly that span).
//! `i64::lex` is checked as a whole: on every ASCII string of 1..2 bytes against the
//! reference lexer `ref_int` (lex/verif_kani/common.rs) and on the concrete boundary
//! literals of the three radices, with `lex::expect` replaced by its loop-free CONTRACT
//! stub (discharged on the real `expect` in lex/verif_kani/c07.rs) and, where stated,
//! `std::mem::drop` leaking (the 19-22 digit literals need unwind 22-26; the dead drop
//! glue of the `expect` temporaries is only affordable without std's BTreeMap destructor).
use super::super::*;
use crate::lex::verif_kani::common::*;

// ---------------------------------------------------------------------------
// K5a: i64::lex on every ASCII string of exactly N bytes

fn int_lex<const N: usize>() {
    let mut buf = [0u8; N];
    let mut i = 0;
    while i < N {
        buf[i] = any_ascii();
        i += 1;
    }
    let input = ascii_str(&buf, N);
    let want = ref_int(&buf, N);
    let r = i64::lex(input);
    match &r {
        Ok((v, rest)) => {
            assert!(want.is_some(), "malformed integer literal accepted");
            let (wv, wn) = want.unwrap();
            assert!(*v == wv, "integer literal denotes its documented value");
            assert!(is_suffix_at(input, rest, wn), "exactly the literal's characters are consumed");
            kani::cover!(N == 1 || *v < 0, "negative decimal");
            kani::cover!(N < 3 || buf[1] == b'x', "hex");
            kani::cover!(N < 2 || (buf[0] == b'0' && *v > 0), "octal or hex");
            kani::cover!(N == 1 || wn < N, "literal followed by something else");
        }
        Err(_) => {
            assert!(want.is_none(), "well-formed integer literal rejected");
            kani::cover!(N == 1 || buf[0] == b'0', "malformed octal / hex");
            kani::cover!(N < 2 || buf[0] == b'-', "malformed negative");
        }
    }
    std::mem::forget(r);
}

#[kani::proof]
#[kani::stub(std::mem::drop, crate::lex::verif_kani::common::mem_drop__leak)]
#[kani::unwind(3)]
#[kani::stub(crate::lex::expect, crate::lex::verif_kani::common::expect__contract)]
fn i64_lex__all_ascii_len1() {
    int_lex::<1>()
}

#[kani::proof]
#[kani::unwind(4)]
#[kani::stub(std::mem::drop, crate::lex::verif_kani::common::mem_drop__leak)]
#[kani::stub(crate::lex::expect, crate::lex::verif_kani::common::expect__contract)]
fn i64_lex__all_ascii_len2() {
    int_lex::<2>()
}

#[kani::proof]
#[kani::stub(std::mem::drop, crate::lex::verif_kani::common::mem_drop__leak)]
#[kani::unwind(5)]
#[kani::stub(crate::lex::expect, crate::lex::verif_kani::common::expect__contract)]
fn i64_lex__all_ascii_len3() {
    int_lex::<3>()
}

// (K5b/K5c obligations on the private helpers lex_digits / parse_number were removed:
// they all passed in 5-18 s, but a harness that names a private helper stops building -
// and with it the whole property - as soon as a change touches that helper's signature
// (e.g. giving lex_digits a radix parameter); the same clauses are carried through
// i64::lex below: *_does_not_split, the boundary literals.)

#[kani::proof]
#[kani::unwind(6)]
#[kani::stub(std::mem::drop, crate::lex::verif_kani::common::mem_drop__leak)]
#[kani::stub(crate::lex::expect, crate::lex::verif_kani::common::expect__contract)]
fn i64_lex__all_ascii_len4() {
    int_lex::<4>()
}

// ---------------------------------------------------------------------------
// K5d: i64::lex on concrete literals that exercise radix selection and maximal
// munch (short ones: the unwind bound must stay small, see the module comment).

macro_rules! lexes {
    ($s:literal, $v:expr, $n:literal) => {{
        let s: &'static str = $s;
        let r = i64::lex(s);
        assert!(matches!(&r, Ok((v, rest)) if *v == $v && is_suffix_at(s, rest, $n)), "value and exact consumption");
        kani::cover!(r.is_ok(), "accepted");
        std::mem::forget(r);
    }};
}

macro_rules! rejects {
    ($s:literal) => {{
        let r = i64::lex($s);
        assert!(r.is_err(), "malformed literal rejected");
        kani::cover!(r.is_err(), "rejected");
        std::mem::forget(r);
    }};
}

#[kani::proof]
#[kani::stub(std::mem::drop, crate::lex::verif_kani::common::mem_drop__leak)]
#[kani::unwind(7)]
#[kani::stub(crate::lex::expect, crate::lex::verif_kani::common::expect__contract)]
fn i64_lex__octal_does_not_split() {
    rejects!("0779");
    rejects!("08 ");
    lexes!("0777}", 511, 4);
}

#[kani::proof]
#[kani::stub(std::mem::drop, crate::lex::verif_kani::common::mem_drop__leak)]
#[kani::unwind(7)]
#[kani::stub(crate::lex::expect, crate::lex::verif_kani::common::expect__contract)]
fn i64_lex__hex_and_negative_forms() {
    lexes!("0x1f..", 31, 4);
    lexes!("-12-", -12, 3);
    // a sign is only part of a decimal literal: `-0x1` is `-0` followed by `x1`
    lexes!("-0x1", 0, 2);
    rejects!("0x");
    rejects!("-");
}

#[kani::proof]
#[kani::unwind(7)]
#[kani::stub(std::mem::drop, crate::lex::verif_kani::common::mem_drop__leak)]
#[kani::stub(crate::lex::expect, crate::lex::verif_kani::common::expect__contract)]
fn i64_lex__decimal_does_not_split() {
    rejects!("10fe");
    rejects!("1a ");
    lexes!("78!", 78, 2);
}

// K5e: the i64 boundary literals through i64::lex itself (regression obligations).
macro_rules! boundary {
    ($name:ident, $unwind:literal, $body:block) => {
        #[kani::proof]
        #[kani::unwind($unwind)]
        #[kani::stub(std::mem::drop, crate::lex::verif_kani::common::mem_drop__leak)]
        #[kani::stub(crate::lex::expect, crate::lex::verif_kani::common::expect__contract)]
        fn $name() $body
    };
}
boundary!(i64_lex__decimal_max, 24, {
    lexes!("9223372036854775807;", i64::MAX, 19);
});
boundary!(i64_lex__decimal_max_plus_one_rejected, 24, {
    rejects!("9223372036854775808;");
});
boundary!(i64_lex__decimal_min, 24, {
    lexes!("-9223372036854775808;", i64::MIN, 20);
});
boundary!(i64_lex__decimal_min_minus_one_rejected, 24, {
    rejects!("-9223372036854775809;");
});
boundary!(i64_lex__hex_max, 22, {
    lexes!("0x7fffffffffffffff;", i64::MAX, 18);
});
boundary!(i64_lex__hex_max_plus_one_rejected, 22, {
    rejects!("0x8000000000000000;");
});
boundary!(i64_lex__octal_max, 26, {
    lexes!("0777777777777777777777;", i64::MAX, 22);
});
boundary!(i64_lex__octal_max_plus_one_rejected, 26, {
    rejects!("01000000000000000000000;");
});
boundary!(i64_lex__u32_boundaries, 14, {
    lexes!("4294967295]", 4294967295i64, 10);
    lexes!("4294967296]", 4294967296i64, 10);
    lexes!("0x100000000]", 4294967296i64, 11);
});

// ---------------------------------------------------------------------------
// K6: IntRange::lex against the CONTRACT of i64::lex (reference lexer) and of expect:
// `a..b` is accepted <=> a <= b and denotes a..=b; a single value a denotes a..=a;
// exact consumption.  Bounds: one decimal digit, optionally negative, every combination.

/// NA / NB: whether the lower / upper bound carries a minus sign (constants of the
/// obligation, so that the input length LEN is constant).
fn int_range_ordered<const NA: bool, const NB: bool, const LEN: usize>() {
    assert!(LEN == 5 + NA as usize + NB as usize);
    let a: u8 = kani::any();
    let b: u8 = kani::any();
    kani::assume(a <= 9 && b <= 9);
    let mut buf = [0u8; LEN];
    let mut n = 0;
    if NA {
        buf[n] = b'-';
        n += 1;
    }
    buf[n] = b'0' + a;
    n += 1;
    buf[n] = b'.';
    buf[n + 1] = b'.';
    n += 2;
    if NB {
        buf[n] = b'-';
        n += 1;
    }
    buf[n] = b'0' + b;
    n += 1;
    let lit = n;
    buf[n] = b' ';
    // ASCII by construction
    let input = unsafe { std::str::from_utf8_unchecked(&buf) };
    // (a leading 0 means octal: single digits denote themselves in both radices)
    let va = if NA { -(a as i64) } else { a as i64 };
    let vb = if NB { -(b as i64) } else { b as i64 };
    let r = IntRange::lex(input);
    match &r {
        Ok((r, rest)) => {
            assert!(va <= vb, "reversed ranges are rejected");
            let r: std::ops::RangeInclusive<i64> = r.into();
            assert!(*r.start() == va && *r.end() == vb, "a..b denotes a..=b");
            assert!(is_suffix_at(input, rest, lit), "exactly the literal is consumed");
            kani::cover!(va == vb || (NA != NB), "a..a is accepted");
            kani::cover!(va < vb, "ordered");
        }
        Err((kind, _)) => {
            assert!(va > vb, "ordered ranges (including a..a) are accepted");
            assert!(matches!(kind, LexErrorKind::IncompatibleRangeBounds));
            kani::cover!(true, "reversed range rejected");
        }
    }
    std::mem::forget(r);
}

macro_rules! int_range_ordered {
    ($name:ident, $na:literal, $nb:literal, $len:literal) => {
        #[kani::proof]
        #[kani::unwind(5)]
        #[kani::stub(std::mem::drop, crate::lex::verif_kani::common::mem_drop__leak)]
        #[kani::stub(crate::lex::expect, crate::lex::verif_kani::common::expect__contract)]
        #[kani::stub(<i64 as crate::lex::Lex>::lex, crate::lex::verif_kani::common::i64_lex__contract)]
        fn $name() {
            int_range_ordered::<$na, $nb, $len>()
        }
    };
}
int_range_ordered!(int_range_lex__ordered_bounds_pos_pos, false, false, 5);
int_range_ordered!(int_range_lex__ordered_bounds_neg_pos, true, false, 6);
int_range_ordered!(int_range_lex__ordered_bounds_neg_neg, true, true, 7);
// (positive..negative is reversed except 0..-0)
int_range_ordered!(int_range_lex__ordered_bounds_pos_neg, false, true, 6);

/// single value => a..=a ; a single dot is not part of the literal
#[kani::proof]
#[kani::stub(std::mem::drop, crate::lex::verif_kani::common::mem_drop__leak)]
#[kani::unwind(5)]
#[kani::stub(crate::lex::expect, crate::lex::verif_kani::common::expect__contract)]
#[kani::stub(<i64 as crate::lex::Lex>::lex, crate::lex::verif_kani::common::i64_lex__contract)]
fn int_range_lex__single_value() {
    let a: u8 = kani::any();
    kani::assume(a <= 9);
    let neg: bool = kani::any();
    let dot: bool = kani::any();
    let mut buf = [0u8; 4];
    let mut n = 0;
    if neg {
        buf[n] = b'-';
        n += 1;
    }
    buf[n] = b'0' + a;
    n += 1;
    let lit = n;
    buf[n] = if dot { b'.' } else { b'}' };
    buf[n + 1] = b'x';
    n += 2;
    let input = ascii_str(&buf, n);
    let v = if neg { -(a as i64) } else { a as i64 };
    let r = IntRange::lex(input);
    match &r {
        Ok((r, rest)) => {
            let r: std::ops::RangeInclusive<i64> = r.into();
            assert!(*r.start() == v && *r.end() == v, "a single value a denotes a..=a");
            assert!(is_suffix_at(input, rest, lit), "a single dot is not part of the literal");
            kani::cover!(dot, "followed by a single dot");
        }
        Err(_) => {
            assert!(false, "a single value is a range");
        }
    }
    std::mem::forget(r);
}

/// `a..` without an upper bound, and a malformed upper bound, are rejected.
#[kani::proof]
#[kani::stub(std::mem::drop, crate::lex::verif_kani::common::mem_drop__leak)]
#[kani::unwind(6)]
#[kani::stub(crate::lex::expect, crate::lex::verif_kani::common::expect__contract)]
#[kani::stub(<i64 as crate::lex::Lex>::lex, crate::lex::verif_kani::common::i64_lex__contract)]
fn int_range_lex__missing_upper_bound_rejected() {
    let r = IntRange::lex("1..");
    assert!(r.is_err());
    std::mem::forget(r);
    let r = IntRange::lex("1..}");
    assert!(r.is_err());
    kani::cover!(r.is_err(), "rejected");
    std::mem::forget(r);
}
