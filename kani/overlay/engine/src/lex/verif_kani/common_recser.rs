//! A recording `serde::Serializer` (ghost state for the hand-written `Serialize` impls of
//! C07): it performs no I/O and keeps a short log of what the value asked it to emit.
//! Strings are logged by (length, first byte, last byte), enough to tell the canonical
//! operator / field names apart.
use serde::ser::{self, Impossible, Serialize};

pub(crate) const STR: u8 = 1;
pub(crate) const U8: u8 = 2;
pub(crate) const SEQ: u8 = 3;
pub(crate) const SEQ_END: u8 = 4;
pub(crate) const STRUCT: u8 = 5;
pub(crate) const FIELD: u8 = 6;
pub(crate) const STRUCT_END: u8 = 7;
pub(crate) const I64: u8 = 8;
pub(crate) const BYTES: u8 = 9;
pub(crate) const OTHER: u8 = 10;

pub(crate) static mut LOG_N: usize = 0;
pub(crate) static mut LOG_KIND: [u8; 12] = [0; 12];
pub(crate) static mut LOG_A: [u64; 12] = [0; 12];

pub(crate) fn reset() {
    unsafe {
        LOG_N = 0;
    }
}

fn log(kind: u8, a: u64) {
    unsafe {
        if LOG_N < 12 {
            LOG_KIND[LOG_N] = kind;
            LOG_A[LOG_N] = a;
        }
        LOG_N += 1;
    }
}

pub(crate) fn str_code(s: &str) -> u64 {
    let b = s.as_bytes();
    let n = b.len() as u64;
    if b.is_empty() {
        0
    } else {
        (n << 16) | ((b[0] as u64) << 8) | (b[b.len() - 1] as u64)
    }
}

pub(crate) fn entry(i: usize) -> (u8, u64) {
    unsafe { (LOG_KIND[i], LOG_A[i]) }
}

pub(crate) fn count() -> usize {
    unsafe { LOG_N }
}

pub(crate) struct Rec;
pub(crate) type Err = serde::de::value::Error;

impl ser::Serializer for Rec {
    type Ok = ();
    type Error = Err;
    type SerializeSeq = Rec;
    type SerializeTuple = Impossible<(), Err>;
    type SerializeTupleStruct = Impossible<(), Err>;
    type SerializeTupleVariant = Impossible<(), Err>;
    type SerializeMap = Impossible<(), Err>;
    type SerializeStruct = Rec;
    type SerializeStructVariant = Impossible<(), Err>;

    fn serialize_bool(self, _: bool) -> Result<(), Err> { log(OTHER, 0); Ok(()) }
    fn serialize_i8(self, _: i8) -> Result<(), Err> { log(OTHER, 1); Ok(()) }
    fn serialize_i16(self, _: i16) -> Result<(), Err> { log(OTHER, 2); Ok(()) }
    fn serialize_i32(self, _: i32) -> Result<(), Err> { log(OTHER, 3); Ok(()) }
    fn serialize_i64(self, v: i64) -> Result<(), Err> { log(I64, v as u64); Ok(()) }
    fn serialize_u8(self, v: u8) -> Result<(), Err> { log(U8, v as u64); Ok(()) }
    fn serialize_u16(self, _: u16) -> Result<(), Err> { log(OTHER, 4); Ok(()) }
    fn serialize_u32(self, _: u32) -> Result<(), Err> { log(OTHER, 5); Ok(()) }
    fn serialize_u64(self, _: u64) -> Result<(), Err> { log(OTHER, 6); Ok(()) }
    fn serialize_f32(self, _: f32) -> Result<(), Err> { log(OTHER, 7); Ok(()) }
    fn serialize_f64(self, _: f64) -> Result<(), Err> { log(OTHER, 8); Ok(()) }
    fn serialize_char(self, _: char) -> Result<(), Err> { log(OTHER, 9); Ok(()) }
    fn serialize_str(self, v: &str) -> Result<(), Err> { log(STR, str_code(v)); Ok(()) }
    fn serialize_bytes(self, v: &[u8]) -> Result<(), Err> { log(BYTES, v.len() as u64); Ok(()) }
    fn serialize_none(self) -> Result<(), Err> { log(OTHER, 10); Ok(()) }
    fn serialize_some<T: ?Sized + Serialize>(self, v: &T) -> Result<(), Err> { v.serialize(self) }
    fn serialize_unit(self) -> Result<(), Err> { log(OTHER, 11); Ok(()) }
    fn serialize_unit_struct(self, _: &'static str) -> Result<(), Err> { log(OTHER, 12); Ok(()) }
    fn serialize_unit_variant(self, _: &'static str, _: u32, variant: &'static str) -> Result<(), Err> { log(STR, str_code(variant)); Ok(()) }
    fn serialize_newtype_struct<T: ?Sized + Serialize>(self, _: &'static str, v: &T) -> Result<(), Err> { v.serialize(self) }
    fn serialize_newtype_variant<T: ?Sized + Serialize>(self, _: &'static str, _: u32, _: &'static str, _: &T) -> Result<(), Err> { log(OTHER, 13); Ok(()) }
    fn serialize_seq(self, len: Option<usize>) -> Result<Rec, Err> { log(SEQ, len.map(|l| l as u64).unwrap_or(u64::MAX)); Ok(Rec) }
    fn serialize_tuple(self, _: usize) -> Result<Self::SerializeTuple, Err> { Err(ser::Error::custom("unsupported")) }
    fn serialize_tuple_struct(self, _: &'static str, _: usize) -> Result<Self::SerializeTupleStruct, Err> { Err(ser::Error::custom("unsupported")) }
    fn serialize_tuple_variant(self, _: &'static str, _: u32, _: &'static str, _: usize) -> Result<Self::SerializeTupleVariant, Err> { Err(ser::Error::custom("unsupported")) }
    fn serialize_map(self, _: Option<usize>) -> Result<Self::SerializeMap, Err> { Err(ser::Error::custom("unsupported")) }
    fn serialize_struct(self, name: &'static str, len: usize) -> Result<Rec, Err> { log(STRUCT, (str_code(name) << 8) | len as u64); Ok(Rec) }
    fn serialize_struct_variant(self, _: &'static str, _: u32, _: &'static str, _: usize) -> Result<Self::SerializeStructVariant, Err> { Err(ser::Error::custom("unsupported")) }
}

impl ser::SerializeSeq for Rec {
    type Ok = ();
    type Error = Err;
    fn serialize_element<T: ?Sized + Serialize>(&mut self, v: &T) -> Result<(), Err> { v.serialize(Rec) }
    fn end(self) -> Result<(), Err> { log(SEQ_END, 0); Ok(()) }
}

impl ser::SerializeStruct for Rec {
    type Ok = ();
    type Error = Err;
    fn serialize_field<T: ?Sized + Serialize>(&mut self, key: &'static str, v: &T) -> Result<(), Err> { log(FIELD, str_code(key)); v.serialize(Rec) }
    fn end(self) -> Result<(), Err> { log(STRUCT_END, 0); Ok(()) }
}
