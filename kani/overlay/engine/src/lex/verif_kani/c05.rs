//! C05 obligations: the slicing helpers never split a character and never
//! slice out of bounds.
use super::super::*;
use super::common::*;

/// A string of K items over {a, é (2 bytes), ' '}; returns (buf, byte_len).
fn items<const K: usize>() -> ([u8; 8], usize) {
    let mut buf = [0u8; 8];
    let mut n = 0;
    let mut i = 0;
    while i < K {
        match kani::any::<u8>() % 3 {
            0 => {
                buf[n] = b'a';
                n += 1;
            }
            1 => {
                buf[n] = 0xc3;
                buf[n + 1] = 0xa9;
                n += 2;
            }
            _ => {
                buf[n] = b' ';
                n += 1;
            }
        }
        i += 1;
    }
    (buf, n)
}

/// take(input, n): Ok((span, rest)) with span ++ rest == input and span of
/// exactly n characters, or CountMismatch when the input has fewer.
#[kani::proof]
#[kani::unwind(8)]
fn take__partitions_on_char_boundary() {
    let (buf, n) = items::<3>();
    let input = unsafe { std::str::from_utf8_unchecked(&buf[..n]) };
    let want: usize = kani::any();
    kani::assume(want <= 4);
    match take(input, want) {
        Ok((span, rest)) => {
            assert!(want <= 3, "cannot take more characters than there are");
            assert!(std::ptr::eq(span.as_ptr(), input.as_ptr()) && is_suffix_at(input, rest, span.len()), "span ++ rest == input");
            // span holds exactly `want` characters: count lead bytes
            let mut chars = 0;
            let mut i = 0;
            while i < span.len() {
                if buf[i] & 0xc0 != 0x80 {
                    chars += 1;
                }
                i += 1;
            }
            assert!(chars == want, "exactly the requested number of characters");
            kani::cover!(span.len() > want, "multi-byte characters taken whole");
        }
        Err((kind, at)) => {
            assert!(want > 3, "an error only when the input is too short");
            assert!(is_suffix_at(input, at, 0));
            kani::cover!(true, "too short");
            std::mem::forget(kind);
        }
    }
}

/// take_while(input, _, is 'a'): the maximal prefix of 'a's, or an error when empty.
/// (3 items: no result in 300 s; 2 items.)
#[kani::proof]
#[kani::unwind(6)]
fn take_while__maximal_prefix() {
    let (buf, n) = items::<2>();
    let input = unsafe { std::str::from_utf8_unchecked(&buf[..n]) };
    let mut k = 0;
    while k < n && buf[k] == b'a' {
        k += 1;
    }
    match take_while(input, "a", |c| c == 'a') {
        Ok((span, rest)) => {
            assert!(k > 0 && span.len() == k && std::ptr::eq(span.as_ptr(), input.as_ptr()) && is_suffix_at(input, rest, k));
            kani::cover!(k == 1 && n == 3, "stops in front of a multi-byte character");
        }
        Err((kind, at)) => {
            assert!(k == 0 && is_suffix_at(input, at, 0));
            kani::cover!(n == 3, "a multi-byte character first");
            std::mem::forget(kind);
        }
    }
}

/// span(input, rest) for every suffix `rest` on a character boundary.
#[kani::proof]
#[kani::unwind(8)]
fn span__prefix_before_suffix() {
    let (buf, n) = items::<3>();
    let input = unsafe { std::str::from_utf8_unchecked(&buf[..n]) };
    let at: usize = kani::any();
    kani::assume(at <= n && (at == n || buf[at] & 0xc0 != 0x80));
    let rest = &input[at..];
    let sp = span(input, rest);
    assert!(sp.len() == at && std::ptr::eq(sp.as_ptr(), input.as_ptr()));
    kani::cover!(at == 2 && n > 2 && buf[0] == 0xc3, "prefix is one multi-byte character");
    kani::cover!(at == n, "empty suffix");
}

/// expect(input, "a\u{e9}"): Ok(rest) exactly when the input starts with those 3 bytes,
/// rest being the input after them; otherwise Err located at the input.
#[kani::proof]
#[kani::unwind(8)]
fn expect__strips_exactly_the_prefix() {
    let (buf, n) = items::<3>();
    let input = unsafe { std::str::from_utf8_unchecked(&buf[..n]) };
    let starts = n >= 3 && buf[0] == b'a' && buf[1] == 0xc3 && buf[2] == 0xa9;
    match expect(input, "a\u{e9}") {
        Ok(rest) => {
            assert!(starts && is_suffix_at(input, rest, 3));
            kani::cover!(rest.len() == 2, "a multi-byte character follows the prefix");
        }
        Err((kind, at)) => {
            assert!(!starts && is_suffix_at(input, at, 0));
            assert!(matches!(&kind, LexErrorKind::ExpectedLiteral(_)));
            kani::cover!(n >= 3, "long enough but different");
            std::mem::forget(kind);
        }
    }
}
