//! C07 obligations: whitespace skipping and literal expectation kernels.
use super::super::*;
use super::common::*;

/// K2: skip_space(s) is s minus its maximal prefix over {' ', '\r', '\n'}
/// (tab is not skipped), for every ASCII string of exactly N bytes.
fn skip_space_contract<const N: usize>() {
    let mut buf = [0u8; N];
    let mut i = 0;
    while i < N {
        buf[i] = any_ascii();
        i += 1;
    }
    let input = ascii_str(&buf, N);
    let mut k = 0;
    while k < N && (buf[k] == b' ' || buf[k] == b'\r' || buf[k] == b'\n') {
        k += 1;
    }
    let rest = skip_space(input);
    assert!(is_suffix_at(input, rest, k), "exactly the leading spaces / CR / LF are skipped");
    kani::cover!(k == N);
    kani::cover!(k == 0 && N > 0 && buf[0] == b'\t', "tab is not white space");
}

#[kani::proof]
#[kani::unwind(5)]
fn skip_space__contract_len2() {
    skip_space_contract::<2>()
}

#[kani::proof]
#[kani::unwind(6)]
fn skip_space__contract_len3() {
    skip_space_contract::<3>()
}

/// expect(input, s): Ok(rest) <=> input starts with s; rest is the remainder.
#[kani::proof]
#[kani::unwind(6)]
fn expect__prefix_contract() {
    let buf = [any_ascii(), any_ascii(), any_ascii()];
    let input = ascii_str(&buf, 3);
    match expect(input, "&&") {
        Ok(rest) => {
            assert!(buf[0] == b'&' && buf[1] == b'&');
            assert!(is_suffix_at(input, rest, 2));
        }
        Err((_, at)) => {
            assert!(!(buf[0] == b'&' && buf[1] == b'&'));
            assert!(is_suffix_at(input, at, 0), "input untouched on failure");
        }
    }
}
