//! C07 obligations: whitespace skipping and literal expectation kernels.
use super::super::*;
use super::common::*;

/// K2: skip_space(s) is s minus its maximal prefix over {' ', '\r', '\n'}
/// (tab is not skipped), for every ASCII string of exactly N bytes.
fn skip_space_contract<const N: usize>() {
    let mut buf = [0u8; N];
    let mut i = 0;
    while i < N {
        buf[i] = any_ascii();
        i += 1;
    }
    let input = ascii_str(&buf, N);
    let mut k = 0;
    while k < N && (buf[k] == b' ' || buf[k] == b'\r' || buf[k] == b'\n') {
        k += 1;
    }
    let rest = skip_space(input);
    assert!(is_suffix_at(input, rest, k), "exactly the leading spaces / CR / LF are skipped");
    kani::cover!(k == N);
    kani::cover!(k == 0 && N > 0 && buf[0] == b'\t', "tab is not white space");
}

#[kani::proof]
#[kani::unwind(5)]
fn skip_space__contract_len2() {
    skip_space_contract::<2>()
}

#[kani::proof]
#[kani::unwind(6)]
fn skip_space__contract_len3() {
    skip_space_contract::<3>()
}

/// expect(input, s): Ok(rest) <=> input starts with s; rest is the remainder.
#[kani::proof]
#[kani::unwind(6)]
fn expect__prefix_contract() {
    let buf = [any_ascii(), any_ascii(), any_ascii()];
    let input = ascii_str(&buf, 3);
    match expect(input, "&&") {
        Ok(rest) => {
            assert!(buf[0] == b'&' && buf[1] == b'&');
            assert!(is_suffix_at(input, rest, 2));
        }
        Err((_, at)) => {
            assert!(!(buf[0] == b'&' && buf[1] == b'&'));
            assert!(is_suffix_at(input, at, 0), "input untouched on failure");
        }
    }
}

/// expect's contract for EVERY ASCII input of NI bytes and EVERY ASCII literal of NS
/// bytes: Ok(rest) <=> the input starts with the literal, rest = input minus the
/// literal; otherwise Err((ExpectedLiteral(literal), input)).  This is the contract
/// that `common::expect__contract` implements for the lexers' obligations.
fn expect_contract<const NI: usize, const NS: usize>() {
    let mut ibuf = [0u8; NI];
    let mut i = 0;
    while i < NI {
        ibuf[i] = any_ascii();
        i += 1;
    }
    let mut sbuf = [0u8; NS];
    let mut i = 0;
    while i < NS {
        sbuf[i] = any_ascii();
        i += 1;
    }
    let input = ascii_str(&ibuf, NI);
    // the literal only has to outlive the call
    let lit: &'static str = unsafe { std::mem::transmute::<&str, &'static str>(ascii_str(&sbuf, NS)) };
    let mut starts = NI >= NS;
    let mut i = 0;
    while i < NS && i < NI {
        if ibuf[i] != sbuf[i] {
            starts = false;
        }
        i += 1;
    }
    let r = expect(input, lit);
    match &r {
        Ok(rest) => {
            assert!(starts, "Ok only when the input starts with the literal");
            assert!(is_suffix_at(input, rest, NS), "rest is the input minus the literal");
            kani::cover!(true, "literal found");
        }
        Err((kind, at)) => {
            assert!(!starts, "a present literal is found");
            assert!(is_suffix_at(input, at, 0), "input untouched on failure");
            assert!(matches!(kind, LexErrorKind::ExpectedLiteral(l) if std::ptr::eq(l.as_ptr(), lit.as_ptr()) && l.len() == NS), "the error names the expected literal");
            kani::cover!(true, "literal missing");
        }
    }
    std::mem::forget(r);
}

#[kani::proof]
#[kani::unwind(5)]
fn expect__contract_in3_lit2() {
    expect_contract::<3, 2>()
}

#[kani::proof]
#[kani::unwind(4)]
fn expect__contract_in2_lit1() {
    expect_contract::<2, 1>()
}

#[kani::proof]
#[kani::unwind(4)]
fn expect__contract_in1_lit2() {
    expect_contract::<1, 2>()
}
