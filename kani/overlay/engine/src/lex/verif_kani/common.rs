//! Shared helpers for the lexer obligations.
use super::super::*;

/// A `&str` over the first `n` bytes of `buf`; every byte must be ASCII
/// (sound for `from_utf8_unchecked`).
pub(crate) fn ascii_str(buf: &[u8], n: usize) -> &str {
    let mut i = 0;
    while i < n {
        assert!(buf[i] < 128);
        i += 1;
    }
    unsafe { std::str::from_utf8_unchecked(&buf[..n]) }
}

pub(crate) fn any_ascii() -> u8 {
    let b: u8 = kani::any();
    kani::assume(b < 128);
    b
}

pub(crate) fn hex_val(b: u8) -> Option<u8> {
    match b {
        b'0'..=b'9' => Some(b - b'0'),
        b'a'..=b'f' => Some(b - b'a' + 10),
        b'A'..=b'F' => Some(b - b'A' + 10),
        _ => None,
    }
}

pub(crate) fn oct_val(b: u8) -> Option<u8> {
    match b {
        b'0'..=b'7' => Some(b - b'0'),
        _ => None,
    }
}

/// `rest` is the suffix of `input` starting at byte offset `at`.
pub(crate) fn is_suffix_at(input: &str, rest: &str, at: usize) -> bool {
    at <= input.len()
        && rest.len() == input.len() - at
        && std::ptr::eq(rest.as_ptr(), unsafe { input.as_ptr().add(at) })
}

/// Reference lexer for an integer literal over an ASCII byte string (written
/// from the documented forms: decimal with optional '-', 0x hex, leading-0
/// octal).  Returns (value, consumed) or None.  Only called with <= 4 bytes,
/// so no overflow is possible.
pub(crate) fn ref_int(buf: &[u8], n: usize) -> Option<(i64, usize)> {
    let is_hexdigit = |b: u8| hex_val(b).is_some();
    if n >= 2 && buf[0] == b'0' && buf[1] == b'x' {
        let mut i = 2;
        let mut v: i64 = 0;
        while i < n && is_hexdigit(buf[i]) {
            v = v * 16 + hex_val(buf[i]).unwrap() as i64;
            i += 1;
        }
        if i == 2 { None } else { Some((v, i)) }
    } else if n >= 1 && buf[0] == b'0' {
        let mut i = 0;
        let mut v: i64 = 0;
        let mut bad = false;
        while i < n && is_hexdigit(buf[i]) {
            match oct_val(buf[i]) {
                Some(d) => v = v * 8 + d as i64,
                None => bad = true,
            }
            i += 1;
        }
        if bad { None } else { Some((v, i)) }
    } else {
        let neg = n >= 1 && buf[0] == b'-';
        let start = if neg { 1 } else { 0 };
        let mut i = start;
        let mut v: i64 = 0;
        let mut bad = false;
        while i < n && is_hexdigit(buf[i]) {
            match buf[i] {
                b'0'..=b'9' => v = v * 10 + (buf[i] - b'0') as i64,
                _ => bad = true,
            }
            i += 1;
        }
        if i == start || bad { None } else { Some((if neg { -v } else { v }, i)) }
    }
}

