//! Shared helpers for the lexer obligations.
use super::super::*;

/// A `&str` over the first `n` bytes of `buf`; every byte must be ASCII
/// (sound for `from_utf8_unchecked`).
pub(crate) fn ascii_str(buf: &[u8], n: usize) -> &str {
    let mut i = 0;
    while i < n {
        assert!(buf[i] < 128);
        i += 1;
    }
    unsafe { std::str::from_utf8_unchecked(&buf[..n]) }
}

pub(crate) fn any_ascii() -> u8 {
    let b: u8 = kani::any();
    kani::assume(b < 128);
    b
}

pub(crate) fn hex_val(b: u8) -> Option<u8> {
    match b {
        b'0'..=b'9' => Some(b - b'0'),
        b'a'..=b'f' => Some(b - b'a' + 10),
        b'A'..=b'F' => Some(b - b'A' + 10),
        _ => None,
    }
}

pub(crate) fn oct_val(b: u8) -> Option<u8> {
    match b {
        b'0'..=b'7' => Some(b - b'0'),
        _ => None,
    }
}

/// `rest` is the suffix of `input` starting at byte offset `at`.
pub(crate) fn is_suffix_at(input: &str, rest: &str, at: usize) -> bool {
    at <= input.len()
        && rest.len() == input.len() - at
        && std::ptr::eq(rest.as_ptr(), unsafe { input.as_ptr().add(at) })
}

/// Reference lexer for an integer literal over an ASCII byte string, written from
/// the documented forms: decimal with optional '-', 0x hex, leading-0 octal, full i64
/// range.  A literal is the maximal run of alphanumeric digit characters (0-9a-fA-F)
/// after the prefix / sign: a run containing a character that is not a digit of the
/// selected radix is malformed (it is never split into a shorter literal plus a
/// rest), an empty run is malformed, a value outside i64 is rejected.
/// Returns (value, consumed bytes) or None.
pub(crate) fn ref_int(buf: &[u8], n: usize) -> Option<(i64, usize)> {
    let is_hexdigit = |b: u8| hex_val(b).is_some();
    let (radix, start, neg): (i64, usize, bool) = if n >= 2 && buf[0] == b'0' && buf[1] == b'x' {
        (16, 2, false)
    } else if n >= 1 && buf[0] == b'0' {
        (8, 0, false)
    } else if n >= 1 && buf[0] == b'-' {
        (10, 1, true)
    } else {
        (10, 0, false)
    };
    let mut i = start;
    // accumulate on the negative side so that i64::MIN is representable
    let mut v: Option<i64> = Some(0);
    let mut bad = false;
    while i < n && is_hexdigit(buf[i]) {
        let d = hex_val(buf[i]).unwrap() as i64;
        if d >= radix {
            bad = true;
        } else {
            v = match v {
                Some(x) => match x.checked_mul(radix) {
                    Some(y) => y.checked_sub(d),
                    None => None,
                },
                None => None,
            };
        }
        i += 1;
    }
    if i == start || bad {
        return None;
    }
    match v {
        Some(x) if neg => Some((x, i)),
        Some(x) => x.checked_neg().map(|y| (y, i)),
        None => None,
    }
}

/// CONTRACT STUB for `<i64 as Lex>::lex` (used by the IntRange obligations): the
/// reference lexer above; an error otherwise (the property does not fix error kinds).
/// The real `i64::lex` is discharged against the same reference by
/// `rhs_types::int::verif_kani::c06::i64_lex__*`.
// (`'a` mirrors the impl's early-bound lifetime: Kani wants the same number of generics)
pub(crate) fn i64_lex__contract<'a>(input: &str) -> LexResult<'_, i64>
where
    'a: 'a,
{
    match ref_int(input.as_bytes(), input.len()) {
        Some((v, n)) => Ok((v, &input[n..])),
        None => Err((LexErrorKind::ExpectedName("digit"), input)),
    }
}

/// CONTRACT STUB for `lex::expect(input, s)` (used with `#[kani::stub]` by the C06/C07
/// obligations on lexers that call `expect`).  It implements expect's contract -
/// `Ok(rest)` iff `input` starts with `s`, where `rest` is `input` minus that prefix;
/// otherwise `Err((ExpectedLiteral(s), input))` - without any loop (the prefix
/// comparison is spelled out byte by byte for literals of up to 16 bytes), so that
/// the callers can be checked with a small unwind bound: every `if let Ok(..) =
/// expect(..)` in the real lexers drops a `Result<&str, LexError>`, whose niche-encoded
/// tag CBMC does not fold, and the dead drop glue (two BTreeSet drops inside
/// LexErrorKind) is explored once per unwinding.  The real `expect` is discharged
/// against the same contract by `lex::verif_kani::c07::expect__*`.
pub(crate) fn expect__contract<'i>(input: &'i str, s: &'static str) -> Result<&'i str, LexError<'i>> {
    let a = input.as_bytes();
    let b = s.as_bytes();
    let n = b.len();
    assert!(n <= 16, "expect__contract: literal longer than the spelled-out comparison");
    let mut ok = a.len() >= n;
    macro_rules! byte {
        ($($i:literal)*) => {$(
            if ok && n > $i {
                ok = a[$i] == b[$i];
            }
        )*};
    }
    byte!(0 1 2 3 4 5 6 7 8 9 10 11 12 13 14 15);
    if ok {
        Ok(&input[n..])
    } else {
        Err((LexErrorKind::ExpectedLiteral(s), input))
    }
}

/// CONTRACT STUB for `lex::skip_space(input)`: `input` minus its maximal prefix over
/// {' ', '\r', '\n'} (tab is not white space), spelled out without a loop for up to 8
/// leading blanks (more than 8 is reported as a failed assertion, never assumed away).
/// The real `skip_space` is discharged against this contract by
/// `lex::verif_kani::c07::skip_space__contract_len*`.
pub(crate) fn skip_space__contract(input: &str) -> &str {
    let a = input.as_bytes();
    let mut k = 0;
    macro_rules! blank {
        ($($i:literal)*) => {$(
            if k == $i && a.len() > $i && (a[$i] == b' ' || a[$i] == b'\r' || a[$i] == b'\n') {
                k = $i + 1;
            }
        )*};
    }
    blank!(0 1 2 3 4 5 6 7);
    assert!(
        !(k == 8 && a.len() > 8 && (a[8] == b' ' || a[8] == b'\r' || a[8] == b'\n')),
        "skip_space__contract: more leading blanks than the spelled-out range"
    );
    &input[k..]
}

/// Stub for `std::mem::drop` (`#[kani::stub(std::mem::drop, ..)]`): leak instead of
/// dropping.  Its only effect in the lexer obligations is inside std's
/// `impl Drop for BTreeMap` (`drop(ptr::read(self).into_iter())`), i.e. the destructor
/// of the `ExpectedTypeList` inside a dropped `LexErrorKind`, which CBMC explores for
/// every discarded `Result<_, LexError>` because the niche-encoded tag is not folded.
/// Dropping is not part of any postcondition; leaking cannot make an assertion pass.
pub(crate) fn mem_drop__leak<T>(x: T) {
    std::mem::forget(x)
}
