//! C17 obligations: the built-in list matchers.
use super::super::*;
use crate::types::verif_kani::common::any_scalar_value;

static B: [u8; 2] = [0xff, 0x00];

/// K1: the always-list matches every value, whatever the list name.
#[kani::proof]
#[kani::unwind(3)]
fn always_matcher__matches_everything() {
    let v = any_scalar_value(&B);
    let name = if kani::any() { "x" } else { "" };
    let m = AlwaysListMatcher {};
    assert!(m.match_value(name, &v), "the always-list matches every value");
    std::mem::forget(v);
}

/// K1': the never-list matches no value.
#[kani::proof]
#[kani::unwind(3)]
fn never_matcher__matches_nothing() {
    let v = any_scalar_value(&B);
    let name = if kani::any() { "x" } else { "" };
    let m = NeverListMatcher {};
    assert!(!m.match_value(name, &v), "the never-list matches no value");
    std::mem::forget(v);
}

/// K4: the list definitions hand out their own matcher kind (through the
/// `dyn ListMatcher` object an execution context stores), and `clear` keeps it.
#[kani::proof]
#[kani::unwind(3)]
fn builtin_definitions__new_matcher_kind() {
    let v = LhsValue::Int(kani::any());
    let mut a = AlwaysList {}.new_matcher();
    let mut n = NeverList {}.new_matcher();
    assert!(a.match_value("x", &v), "AlwaysList's matcher matches");
    assert!(!n.match_value("x", &v), "NeverList's matcher does not match");
    a.clear();
    n.clear();
    assert!(a.match_value("x", &v) && !n.match_value("x", &v), "clear() does not change the built-in kinds");
    assert!((*a).as_any().downcast_ref::<AlwaysListMatcher>().is_some());
    assert!((*n).as_any().downcast_ref::<NeverListMatcher>().is_some());
    std::mem::forget(a);
    std::mem::forget(n);
}

// ---------------------------------------------------------------------------
// The built-in definitions also hand out their own matcher kind when a matcher is
// DESERIALIZED (the `$lists` section of a serialized context): driven with a minimal
// serde Deserializer that describes the empty struct `{}` both matchers serialize to.
use serde::de::{DeserializeSeed, MapAccess, Visitor as SerdeVisitor};

struct EmptyStruct;
struct EmptyMap;

impl<'de> MapAccess<'de> for EmptyMap {
    type Error = serde::de::value::Error;
    fn next_key_seed<K: DeserializeSeed<'de>>(&mut self, _seed: K) -> Result<Option<K::Value>, Self::Error> {
        Ok(None)
    }
    fn next_value_seed<V: DeserializeSeed<'de>>(&mut self, _seed: V) -> Result<V::Value, Self::Error> {
        unreachable!()
    }
}

impl<'de> serde::Deserializer<'de> for EmptyStruct {
    type Error = serde::de::value::Error;
    fn deserialize_any<V: SerdeVisitor<'de>>(self, visitor: V) -> Result<V::Value, Self::Error> {
        visitor.visit_map(EmptyMap)
    }
    serde::forward_to_deserialize_any! {
        bool i8 i16 i32 i64 i128 u8 u16 u32 u64 u128 f32 f64 char str string bytes byte_buf option unit
        unit_struct newtype_struct seq tuple tuple_struct map struct enum identifier ignored_any
    }
}

#[kani::proof]
#[kani::unwind(4)]
fn builtin_definitions__deserialized_matcher_kind() {
    let x: i64 = kani::any();
    let v = LhsValue::Int(x);
    let mut d = <dyn erased_serde::Deserializer>::erase(EmptyStruct);
    let never = NeverList {}.deserialize_matcher(Type::Int, &mut d);
    match &never {
        Ok(m) => {
            assert!(!m.match_value("n", &v), "a deserialized never-list matcher matches nothing");
        }
        Err(_) => {
            assert!(false, "an empty struct must deserialize into the never-list matcher");
        }
    }
    std::mem::forget(never);
    let mut d = <dyn erased_serde::Deserializer>::erase(EmptyStruct);
    let always = AlwaysList {}.deserialize_matcher(Type::Int, &mut d);
    match &always {
        Ok(m) => {
            assert!(m.match_value("n", &v), "a deserialized always-list matcher matches everything");
        }
        Err(_) => {
            assert!(false, "an empty struct must deserialize into the always-list matcher");
        }
    }
    std::mem::forget(always);
}
