//! C17 obligations: the built-in list matchers.
use super::super::*;
use crate::types::verif_kani::common::any_scalar_value;

static B: [u8; 2] = [0xff, 0x00];

/// K1: the always-list matches every value, whatever the list name.
#[kani::proof]
#[kani::unwind(3)]
fn always_matcher__matches_everything() {
    let v = any_scalar_value(&B);
    let name = if kani::any() { "x" } else { "" };
    let m = AlwaysListMatcher {};
    assert!(m.match_value(name, &v), "the always-list matches every value");
    std::mem::forget(v);
}

/// K1': the never-list matches no value.
#[kani::proof]
#[kani::unwind(3)]
fn never_matcher__matches_nothing() {
    let v = any_scalar_value(&B);
    let name = if kani::any() { "x" } else { "" };
    let m = NeverListMatcher {};
    assert!(!m.match_value(name, &v), "the never-list matches no value");
    std::mem::forget(v);
}

/// K4: the list definitions hand out their own matcher kind (through the
/// `dyn ListMatcher` object an execution context stores), and `clear` keeps it.
#[kani::proof]
#[kani::unwind(3)]
fn builtin_definitions__new_matcher_kind() {
    let v = LhsValue::Int(kani::any());
    let mut a = AlwaysList {}.new_matcher();
    let mut n = NeverList {}.new_matcher();
    assert!(a.match_value("x", &v), "AlwaysList's matcher matches");
    assert!(!n.match_value("x", &v), "NeverList's matcher does not match");
    a.clear();
    n.clear();
    assert!(a.match_value("x", &v) && !n.match_value("x", &v), "clear() does not change the built-in kinds");
    assert!((*a).as_any().downcast_ref::<AlwaysListMatcher>().is_some());
    assert!((*n).as_any().downcast_ref::<NeverListMatcher>().is_some());
    std::mem::forget(a);
    std::mem::forget(n);
}
