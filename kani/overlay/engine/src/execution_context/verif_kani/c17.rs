//! C17 obligations: an execution context holds one matcher per registered list,
//! in registration order, and routes `list -> matcher` by the list's index.
use super::super::*;
use crate::list_matcher::{ListDefinition, ListMatcher};
use crate::scheme::verif_kani::common::{builder_of, list, list_ref, push_list};
use crate::types::Type;
use serde::{Deserialize, Serialize};

/// Matcher that records who created it and whether it was cleared; it
/// "matches" exactly the Int value equal to its id.
#[derive(Clone, Debug, PartialEq, Serialize, Deserialize)]
struct Rec {
    id: i64,
    cleared: bool,
}

impl ListMatcher for Rec {
    fn match_value(&self, _: &str, v: &LhsValue<'_>) -> bool {
        matches!(v, LhsValue::Int(i) if *i == self.id)
    }

    fn clear(&mut self) {
        self.cleared = true;
    }
}

#[derive(Debug)]
struct Def(i64);

impl ListDefinition for Def {
    fn deserialize_matcher<'de>(
        &self,
        _: Type,
        _: &mut dyn erased_serde::Deserializer<'de>,
    ) -> Result<Box<dyn ListMatcher>, erased_serde::Error> {
        unreachable!()
    }

    fn new_matcher(&self) -> Box<dyn ListMatcher> {
        Box::new(Rec {
            id: self.0,
            cleared: false,
        })
    }
}

fn rec(m: &dyn ListMatcher) -> &Rec {
    m.as_any().downcast_ref::<Rec>().unwrap()
}

fn two_list_scheme(a: i64, b: i64) -> Scheme {
    let mut builder = builder_of(&[]);
    push_list(&mut builder, Type::Int, Box::new(Def(a)));
    push_list(&mut builder, Type::Ip, Box::new(Def(b)));
    builder.build()
}

/// K3a: matcher i is the one created by list definition i (registration
/// order); the unchecked and checked accessors agree; the answer of
/// `match_value` is the selected matcher's answer; state set on the context's
/// matcher is what is seen afterwards.
#[kani::proof]
#[kani::unwind(4)]
fn context_list_matchers__routing_by_index() {
    let a: i64 = kani::any();
    let b: i64 = kani::any();
    kani::assume(a != b);
    let scheme = two_list_scheme(a, b);
    let mut ctx = ExecutionContext::<()>::new(&scheme);
    let l0 = list(&scheme, 0);
    let l1 = list(&scheme, 1);
    assert!(rec(ctx.get_list_matcher_unchecked(&l0)).id == a, "list 0 -> matcher of definition 0");
    assert!(rec(ctx.get_list_matcher_unchecked(&l1)).id == b, "list 1 -> matcher of definition 1");
    assert!(rec(ctx.get_list_matcher(list_ref(&scheme, 1))).id == b);
    let x: i64 = kani::any();
    let v = LhsValue::Int(x);
    assert!(
        ctx.get_list_matcher_unchecked(&l0).match_value("n", &v) == (x == a),
        "the answer is the selected matcher's answer"
    );
    assert!(ctx.get_list_matcher_unchecked(&l1).match_value("n", &v) == (x == b));
    ctx.get_list_matcher_mut(list_ref(&scheme, 0))
        .as_any_mut()
        .downcast_mut::<Rec>()
        .unwrap()
        .id = x;
    assert!(
        ctx.get_list_matcher_unchecked(&l0).match_value("n", &v),
        "matcher state set on the context is what executions see"
    );
    assert!(rec(ctx.get_list_matcher_unchecked(&l1)).id == b, "other matchers are untouched");
    std::mem::forget(ctx);
    std::mem::forget(l0);
    std::mem::forget(l1);
    std::mem::forget(scheme);
}

