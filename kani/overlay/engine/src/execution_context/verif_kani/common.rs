//! Harness support: build a context pre-state directly (slot write without the type
//! check of `set_field_value`, whose error path - sorting an `ExpectedTypeList` - is
//! expensive under CBMC and is verified on its own in c08).  Constructs values only.
use super::super::*;

pub(crate) fn put<'e, U>(ctx: &mut ExecutionContext<'e, U>, index: usize, v: LhsValue<'e>) {
    ctx.values[index] = Some(v);
}

/// Replace the whole slot vector of a one-field context by a fixed-size boxed array.
/// (`ExecutionContext::new` allocates `vec![None; field_count]`, whose length CBMC
/// treats as symbolic; reading a slot of that allocation sends CBMC's array
/// post-processing out of memory - measured 44-59 GB.)
pub(crate) fn set_slots1<'e, U>(ctx: &mut ExecutionContext<'e, U>, v: Option<LhsValue<'e>>) {
    let old = std::mem::replace(&mut ctx.values, Box::new([v]));
    std::mem::forget(old);
}

/// Same for a two-field context.
pub(crate) fn set_slots2<'e, U>(
    ctx: &mut ExecutionContext<'e, U>,
    v0: Option<LhsValue<'e>>,
    v1: Option<LhsValue<'e>>,
) {
    let old = std::mem::replace(&mut ctx.values, Box::new([v0, v1]));
    std::mem::forget(old);
}

/// Point the context's slot box at caller-owned, TYPED storage (a local array) instead of a heap
/// allocation.  CBMC models heap allocations as untyped byte arrays and then cannot fold the
/// niche-encoded tag of `Option<LhsValue>` read back from them, so every drop / clone of a slot
/// explores the whole recursive `LhsValue` glue (measured: no result in 5 min even for `None`);
/// read from a typed local the tag folds (2 s).  The caller must `mem::forget` the context (and
/// whatever the slot box is moved into) before the storage goes out of scope: the box is never
/// freed.  Constructs a pre-state; not a model.
pub(crate) unsafe fn set_slots_raw<'e, U>(
    ctx: &mut ExecutionContext<'e, U>,
    slots: *mut [Option<LhsValue<'e>>],
) {
    let old = std::mem::replace(&mut ctx.values, unsafe { Box::from_raw(slots) });
    std::mem::forget(old);
}

/// A context over `scheme` whose slot box AND list-matcher box point at caller-owned TYPED storage
/// (local arrays), built by direct struct construction instead of `ExecutionContext::new_with`
/// (whose `vec![None; n]` is a symbolic-size allocation - trap 1 - and whose results are untyped heap
/// objects to CBMC, see `set_slots_raw`).  `new_with` itself is the subject of the C17 obligation
/// `context_list_matchers__routing_by_index`.  The caller must `mem::forget` the context (and
/// anything its boxes are moved into).  Constructs a pre-state; not a model.
pub(crate) unsafe fn context_over<'e, U>(
    scheme: &Scheme,
    slots: *mut [Option<LhsValue<'e>>],
    matchers: *mut [Box<dyn ListMatcher>],
    user_data: U,
) -> ExecutionContext<'e, U> {
    ExecutionContext {
        scheme: scheme.clone(),
        values: unsafe { Box::from_raw(slots) },
        list_matchers: unsafe { Box::from_raw(matchers) },
        user_data,
    }
}
