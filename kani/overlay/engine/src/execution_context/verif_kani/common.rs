//! Harness support: build a context pre-state directly (slot write without the type
//! check of `set_field_value`, whose error path - sorting an `ExpectedTypeList` - is
//! expensive under CBMC and is verified on its own in c08).  Constructs values only.
use super::super::*;

pub(crate) fn put<'e, U>(ctx: &mut ExecutionContext<'e, U>, index: usize, v: LhsValue<'e>) {
    ctx.values[index] = Some(v);
}
