//! C08 obligations: an execution context is a typed map from its scheme's
//! fields to optional values.  Abstract view: slots[i] = values[i] (one per
//! field), the list matchers, and the scheme identity.  Invariant: slot i is
//! None or has the field's declared type.  Each operation's contract is stated
//! from a pre-state satisfying the invariant and over the WHOLE view.
//!
//! Field types and value kinds are constants of each obligation (choosing them
//! symbolically does not terminate under CBMC); leaves are symbolic.
//!
//! Pre-states are built over TYPED LOCAL storage (slot array, matcher array,
//! field definitions, array elements): CBMC treats heap allocations as untyped
//! byte arrays and cannot fold enum tags read back from them, which makes every
//! drop / clone / type comparison explore all variants of the recursive
//! `LhsValue` (measured: no result in 5 min even for an empty context).
use super::super::*;
use super::common::context_over;
use crate::lhs_types::verif_kani::c08::{map_empty, map_is_borrowed};
use crate::lhs_types::verif_kani::common::array_borrowed;
use crate::lhs_types::{Array, Bytes, Map};
use crate::list_matcher::{ListDefinition, ListMatcher};
use crate::scheme::verif_kani::c08::{builder_over, field_store2};
use crate::scheme::verif_kani::common::{field_ref, list_ref, push_list};
use crate::types::Type;
use serde::{Deserialize, Serialize};

/// The type pool: 0 Int, 1 Bytes, 2 Array(Int), 3 Array(Bytes),
/// 4 Array(Array(Int)), 5 Map(Int), 6 Bool, 7 Ip (an IPv4 address made of the leaf's low 32 bits).
/// (wrong primitive: 0/1/6; right container, wrong element: 2/3; right shape,
/// wrong depth: 2/4; other container: 2/5.)
fn ty<const K: usize>() -> Type {
    match K {
        0 => Type::Int,
        1 => Type::Bytes,
        2 => Type::Array(Type::Int.into()),
        3 => Type::Array(Type::Bytes.into()),
        4 => Type::Array(Type::Array(Type::Int.into()).into()),
        5 => Type::Map(Type::Int.into()),
        7 => Type::Ip,
        _ => Type::Bool,
    }
}

/// Leaf storage of one pool value (kept in a local of the harness; the value
/// borrows from it, so nothing lives on the heap and nothing needs dropping).
struct L1 {
    ints: [LhsValue<'static>; 1],
    bytes: [u8; 1],
}

struct L2<'a> {
    byte_elems: [LhsValue<'a>; 1],
    inner: [LhsValue<'a>; 1],
}

fn l1(m: i64) -> L1 {
    L1 {
        ints: [LhsValue::Int(m)],
        bytes: [m as u8],
    }
}

fn l2<'a>(l: &'a L1) -> L2<'a> {
    L2 {
        byte_elems: [LhsValue::Bytes(Bytes::Borrowed(&l.bytes[..]))],
        inner: [LhsValue::Array(array_borrowed(Type::Int, &l.ints[..]))],
    }
}

/// The value of pool type K with leaf `m` (so that two values of the same type
/// can be told apart; for the leafless Map(Int) the representation - borrowed
/// for even m - plays that role).  Built by direct construction (no checked
/// constructor: those are verified on their own in lhs_types/*/verif_kani/c08).
fn value<'a, const K: usize>(m: i64, a: &'a L1, b: &'a L2<'a>) -> LhsValue<'a> {
    match K {
        0 => LhsValue::Int(m),
        1 => LhsValue::Bytes(Bytes::Borrowed(&a.bytes[..])),
        2 => LhsValue::Array(array_borrowed(Type::Int, &a.ints[..])),
        3 => LhsValue::Array(array_borrowed(Type::Bytes, &b.byte_elems[..])),
        4 => LhsValue::Array(array_borrowed(Type::Array(Type::Int.into()), &b.inner[..])),
        5 => LhsValue::Map(map_empty(Type::Int, m & 1 == 0)),
        7 => LhsValue::Ip(std::net::IpAddr::V4(std::net::Ipv4Addr::from(m as u32))),
        _ => LhsValue::Bool(m & 1 == 0),
    }
}

fn int_elem(v: Option<&LhsValue<'_>>, m: i64) -> bool {
    matches!(v, Some(LhsValue::Int(x)) if *x == m)
}

/// `v` is exactly the pool value of type K with leaf m: full nested type and leaf.
fn is_value<const K: usize>(v: &LhsValue<'_>, m: i64) -> bool {
    if v.get_type() != ty::<K>() {
        return false;
    }
    match K {
        0 => matches!(v, LhsValue::Int(x) if *x == m),
        1 => matches!(v, LhsValue::Bytes(b) if b.len() == 1 && b[0] == m as u8),
        2 => match v {
            LhsValue::Array(a) => a.len() == 1 && int_elem(a.get(0), m),
            _ => false,
        },
        3 => match v {
            LhsValue::Array(a) => {
                a.len() == 1 && matches!(a.get(0), Some(LhsValue::Bytes(b)) if b.len() == 1 && b[0] == m as u8)
            }
            _ => false,
        },
        4 => match v {
            LhsValue::Array(a) => match a.get(0) {
                Some(LhsValue::Array(inner)) => {
                    a.len() == 1 && inner.value_type() == Type::Int && inner.len() == 1 && int_elem(inner.get(0), m)
                }
                _ => false,
            },
            _ => false,
        },
        5 => match v {
            LhsValue::Map(mp) => mp.len() == 0 && map_is_borrowed(mp) == (m & 1 == 0),
            _ => false,
        },
        7 => matches!(v, LhsValue::Ip(std::net::IpAddr::V4(a)) if u32::from(*a) == m as u32),
        _ => matches!(v, LhsValue::Bool(b) if *b == (m & 1 == 0)),
    }
}

/// The slot is `None` (present == false) or holds exactly the pool value (K, m).
fn slot_is<const K: usize>(slot: &Option<LhsValue<'_>>, present: bool, m: i64) -> bool {
    match slot {
        None => !present,
        Some(v) => present && is_value::<K>(v, m),
    }
}

fn no_matchers() -> [Box<dyn ListMatcher>; 0] {
    []
}

// ---------------------------------------------------------------------------
// K1 + K2: set_field_value / get_field_value
// ---------------------------------------------------------------------------

/// K1 `set_field_value(field, v)` on a scheme (a: FT, b: Int), value of kind VK:
/// Ok(prev) <=> the field belongs to the context's scheme AND VK's full nested
/// type equals FT's; then slots' = slots[0 := Some(v)] and prev = old slot 0.
/// Otherwise Err(SchemeMismatch | TypeMismatch{actual}) and the WHOLE view is
/// unchanged.  K2: `get_field_value` reads exactly the slot afterwards.
/// Symbolic: all leaves, presence of both slots.  Constants: FT, VK and whether
/// the field handle comes from a second, structurally identical scheme.
fn set_field_value_contract<const FT: usize, const VK: usize, const FOREIGN: bool>() {
    let mut f1 = field_store2(ty::<FT>(), Type::Int);
    let mut f2 = field_store2(ty::<FT>(), Type::Int);
    let s1 = unsafe { builder_over(&mut f1) }.build();
    let s2 = unsafe { builder_over(&mut f2) }.build();
    // Map<Int> values have no leaf: the old one is the owned (odd leaf), the new one the borrowed
    // (even leaf) representation, as constants (a symbolic representation makes CBMC explore the
    // BTreeMap drop glue)
    let p0: i64 = if FT == 5 { 1 } else { kani::any() };
    let p1: i64 = kani::any();
    let x: i64 = if VK == 5 { 0 } else { kani::any() };
    let had0: bool = kani::any();
    let had1: bool = kani::any();
    let (old_a, new_a) = (l1(p0), l1(x));
    let (old_b, new_b) = (l2(&old_a), l2(&new_a));
    let mut slots = [
        if had0 { Some(value::<FT>(p0, &old_a, &old_b)) } else { None },
        if had1 { Some(LhsValue::Int(p1)) } else { None },
    ];
    let mut ms = no_matchers();
    let mut ctx = unsafe { context_over(&s1, &mut slots[..], &mut ms[..], ()) };

    let r = ctx.set_field_value(field_ref(if FOREIGN { &s2 } else { &s1 }, 0), value::<VK>(x, &new_a, &new_b));

    let should_succeed = !FOREIGN && ty::<FT>() == ty::<VK>();
    let mut outcome = 0u8;
    match r {
        Ok(prev) => {
            outcome = 1;
            assert!(!FOREIGN, "a field of another (structurally identical) scheme must be refused");
            assert!(ty::<FT>() == ty::<VK>(), "a value whose full nested type differs from the field's must be refused");
            assert!(slot_is::<FT>(&prev, had0, p0), "the previously stored value is returned");
            assert!(slot_is::<VK>(&ctx.values[0], true, x), "the slot holds the value just set");
            std::mem::forget(prev);
        }
        Err(SetFieldValueError::SchemeMismatch(_)) => {
            outcome = 2;
            assert!(FOREIGN, "scheme mismatch only for a field of another scheme");
            assert!(slot_is::<FT>(&ctx.values[0], had0, p0), "a failed set leaves the context unchanged");
        }
        Err(SetFieldValueError::TypeMismatch(e)) => {
            outcome = 3;
            assert!(!FOREIGN, "a foreign field is a scheme mismatch");
            assert!(ty::<FT>() != ty::<VK>(), "a value of the field's own type must be accepted");
            assert!(e.actual == ty::<VK>(), "the error reports the value's type");
            assert!(slot_is::<FT>(&ctx.values[0], had0, p0), "a failed set leaves the context unchanged");
            std::mem::forget(e);
        }
        Err(e) => {
            std::mem::forget(e);
            assert!(false, "unexpected error kind");
        }
    }
    assert!((outcome == 1) == should_succeed, "Ok exactly when the field is the context's and the types are equal");
    // frame: the other slot and the shape of the context are untouched in every case
    assert!(ctx.values.len() == 2);
    assert!(slot_is::<0>(&ctx.values[1], had1, p1), "other fields are untouched");
    assert!(*ctx.scheme() == s1, "the context stays bound to its scheme");
    // invariant: every stored value has its field's declared type
    assert!(match &ctx.values[0] {
        None => true,
        Some(v) => v.get_type() == ty::<FT>(),
    });
    // K2: reads return the last value set
    match ctx.get_field_value(field_ref(&s1, 0)) {
        Some(v) => {
            if outcome == 1 {
                assert!(is_value::<VK>(v, x), "reads return the last value set");
            } else {
                assert!(had0 && is_value::<FT>(v, p0), "reads return the last value set");
            }
        }
        None => {
            assert!(outcome != 1 && !had0, "reads return the last value set");
        }
    }
    match ctx.get_field_value(field_ref(&s1, 1)) {
        Some(v) => {
            assert!(had1 && is_value::<0>(v, p1));
        }
        None => {
            assert!(!had1);
        }
    }
    let expected_outcome = if FOREIGN {
        2
    } else if FT == VK {
        1
    } else {
        3
    };
    kani::cover!(outcome == expected_outcome && had0 && had1, "both slots were occupied");
    kani::cover!(outcome == expected_outcome && !had0 && !had1, "both slots were empty");
    std::mem::forget(ctx);
    std::mem::forget((s1, s2));
    std::mem::forget((slots, ms, f1, f2));
    std::mem::forget((old_b, new_b));
    std::mem::forget((old_a, new_a));
}

macro_rules! set_pairs {
    ($($name:ident: $ft:literal, $vk:literal, $foreign:literal;)*) => {
        $(
            #[kani::proof]
            #[kani::unwind(3)]
            #[kani::stub(<crate::types::ExpectedTypeList as std::convert::From<crate::types::Type>>::from, crate::types::verif_kani::c08::expected_type_list_from_type__contract)]
            fn $name() {
                set_field_value_contract::<$ft, $vk, $foreign>()
            }
        )*
    };
}

set_pairs! {
    set_field_value__int_field_int_value: 0, 0, false;
    set_field_value__int_field_bytes_value: 0, 1, false;
    set_field_value__int_field_bool_value: 0, 6, false;
    set_field_value__bytes_field_bytes_value: 1, 1, false;
    set_field_value__bytes_field_int_value: 1, 0, false;
    set_field_value__int_field_array_int_value: 0, 2, false;
    set_field_value__array_int_field_int_value: 2, 0, false;
    set_field_value__array_int_field_array_int_value: 2, 2, false;
    set_field_value__array_int_field_array_bytes_value: 2, 3, false;
    set_field_value__array_int_field_array_array_int_value: 2, 4, false;
    set_field_value__array_array_int_field_array_int_value: 4, 2, false;
    set_field_value__array_array_int_field_same: 4, 4, false;
    set_field_value__map_int_field_array_int_value: 5, 2, false;
    // NOT REGISTERED (removed): (Map<Int> field, Map<Int> value) and (Array<Int> field, Map<Int> value): a Map VALUE
    // passed to set_field_value makes CBMC explore the BTreeMap drop / comparison glue - no result in 300 s.  A
    // Map<Int> FIELD holding a map and refusing an Array<Int> value is discharged above.
    set_field_value__ip_field_ip_value: 7, 7, false;
    set_field_value__ip_field_int_value: 7, 0, false;
    set_field_value__int_field_ip_value: 0, 7, false;
    set_field_value__foreign_int_field_int_value: 0, 0, true;
    set_field_value__foreign_int_field_bytes_value: 0, 1, true;
    set_field_value__foreign_array_int_field_array_int_value: 2, 2, true;
}

/// K2: a field of another scheme is a contract violation of get_field_value
/// (documented assertion): it panics, it never reads another scheme's slot.
#[kani::proof]
#[kani::unwind(3)]
#[kani::should_panic]
fn get_field_value__foreign_field_panics() {
    let mut f1 = field_store2(Type::Int, Type::Int);
    let mut f2 = field_store2(Type::Int, Type::Int);
    let s1 = unsafe { builder_over(&mut f1) }.build();
    let s2 = unsafe { builder_over(&mut f2) }.build();
    let ctx = ExecutionContext::<()>::new(&s1);
    let _ = ctx.get_field_value(field_ref(&s2, 0));
}

// ---------------------------------------------------------------------------
// set_field_value_from_name (name lookup = trusted contract stub of Scheme::get_field)
// ---------------------------------------------------------------------------

/// `set_field_value_from_name(name, v)` on a scheme (a: FT, b: Int), both slots
/// occupied (P = true) or empty, value of kind VK, NAME 0 = "a", 1 = "b",
/// 2 = "zz" (unknown): Ok(prev) <=> the name is a field of the scheme and VK's
/// full type equals that field's type; then that slot := v, prev = old slot;
/// otherwise Err(UnknownField | TypeMismatch) and the WHOLE view is unchanged.
fn set_by_name_contract<const FT: usize, const VK: usize, const NAME: usize, const P: bool>() {
    let mut f = field_store2(ty::<FT>(), Type::Int);
    let s = unsafe { builder_over(&mut f) }.build();
    let p0: i64 = kani::any();
    let p1: i64 = kani::any();
    let x: i64 = kani::any();
    let (old_a, new_a) = (l1(p0), l1(x));
    let (old_b, new_b) = (l2(&old_a), l2(&new_a));
    let mut slots = [
        if P { Some(value::<FT>(p0, &old_a, &old_b)) } else { None },
        if P { Some(LhsValue::Int(p1)) } else { None },
    ];
    let mut ms = no_matchers();
    let mut ctx = unsafe { context_over(&s, &mut slots[..], &mut ms[..], ()) };
    let name = match NAME {
        0 => "a",
        1 => "b",
        _ => "zz",
    };
    let r = ctx.set_field_value_from_name(name, value::<VK>(x, &new_a, &new_b));
    let target_ty = if NAME == 0 { ty::<FT>() } else { Type::Int };
    let should_succeed = NAME < 2 && target_ty == ty::<VK>();
    let mut outcome = 0u8;
    match r {
        Ok(prev) => {
            outcome = 1;
            assert!(should_succeed, "unknown names and ill-typed values must be refused");
            if NAME == 0 {
                assert!(slot_is::<FT>(&prev, P, p0), "the previously stored value is returned");
                assert!(slot_is::<VK>(&ctx.values[0], true, x), "the named slot holds the value just set");
                assert!(slot_is::<0>(&ctx.values[1], P, p1), "other fields are untouched");
            } else {
                assert!(slot_is::<0>(&prev, P, p1), "the previously stored value is returned");
                assert!(slot_is::<VK>(&ctx.values[1], true, x), "the named slot holds the value just set");
                assert!(slot_is::<FT>(&ctx.values[0], P, p0), "other fields are untouched");
            }
            std::mem::forget(prev);
        }
        Err(SetFieldValueError::UnknownField(_)) => {
            outcome = 2;
            assert!(NAME >= 2, "a registered name must be found");
        }
        Err(SetFieldValueError::TypeMismatch(e)) => {
            outcome = 3;
            assert!(NAME < 2 && target_ty != ty::<VK>(), "a value of the field's own type must be accepted");
            assert!(e.actual == ty::<VK>(), "the error reports the value's type");
            std::mem::forget(e);
        }
        Err(e) => {
            std::mem::forget(e);
            assert!(false, "unexpected error kind");
        }
    }
    assert!((outcome == 1) == should_succeed);
    if outcome != 1 {
        assert!(slot_is::<FT>(&ctx.values[0], P, p0), "a failed set leaves the context unchanged (slot a)");
        assert!(slot_is::<0>(&ctx.values[1], P, p1), "a failed set leaves the context unchanged (slot b)");
    }
    assert!(ctx.values.len() == 2);
    kani::cover!(outcome == (if NAME >= 2 { 2 } else if should_succeed { 1 } else { 3 }));
    std::mem::forget(ctx);
    std::mem::forget(s);
    std::mem::forget((slots, ms, f));
    std::mem::forget((old_b, new_b));
    std::mem::forget((old_a, new_a));
}

macro_rules! by_name {
    ($($name:ident: $ft:literal, $vk:literal, $n:literal, $p:literal;)*) => {
        $(
            #[kani::proof]
            #[kani::unwind(2)]
            #[kani::stub(crate::scheme::Scheme::get_field, crate::scheme::Scheme::get_field__contract)]
            #[kani::stub(<crate::types::ExpectedTypeList as std::convert::From<crate::types::Type>>::from, crate::types::verif_kani::c08::expected_type_list_from_type__contract)]
            fn $name() {
                set_by_name_contract::<$ft, $vk, $n, $p>()
            }
        )*
    };
}

by_name! {
    set_by_name__int_field_int_value_occupied: 0, 0, 0, true;
    set_by_name__int_field_int_value_empty: 0, 0, 0, false;
    set_by_name__int_field_bytes_value_occupied: 0, 1, 0, true;
    set_by_name__int_field_bytes_value_empty: 0, 1, 0, false;
    set_by_name__second_field_int_value_occupied: 1, 0, 1, true;
    set_by_name__second_field_bytes_value_occupied: 1, 1, 1, true;
    set_by_name__array_int_field_array_bytes_value_occupied: 2, 3, 0, true;
    set_by_name__array_int_field_array_int_value_occupied: 2, 2, 0, true;
    set_by_name__array_int_field_array_array_int_value_occupied: 2, 4, 0, true;
    set_by_name__unknown_name_occupied: 0, 0, 2, true;
}

// ---------------------------------------------------------------------------
// recording list matcher (as in c17.rs; a scheme with lists is needed to see
// the matchers of clear / clone_with / borrow_with)
// ---------------------------------------------------------------------------

#[derive(Clone, Debug, PartialEq, Serialize, Deserialize)]
struct Rec {
    id: i64,
    cleared: u8,
}

impl ListMatcher for Rec {
    fn match_value(&self, _: &str, v: &LhsValue<'_>) -> bool {
        matches!(v, LhsValue::Int(i) if *i == self.id)
    }

    fn clear(&mut self) {
        self.cleared += 1;
    }
}

#[derive(Debug)]
struct Def(i64);

impl ListDefinition for Def {
    fn deserialize_matcher<'de>(
        &self,
        _: Type,
        _: &mut dyn erased_serde::Deserializer<'de>,
    ) -> Result<Box<dyn ListMatcher>, erased_serde::Error> {
        unreachable!()
    }

    fn new_matcher(&self) -> Box<dyn ListMatcher> {
        Box::new(Rec {
            id: self.0,
            cleared: 0,
        })
    }
}

fn rec(m: &dyn ListMatcher) -> &Rec {
    m.as_any().downcast_ref::<Rec>().unwrap()
}

fn rec_mut(m: &mut dyn ListMatcher) -> &mut Rec {
    m.as_any_mut().downcast_mut::<Rec>().unwrap()
}

/// Scheme over the given field storage with two lists (Int -> Def(a), Ip -> Def(b)).
macro_rules! scheme_with_lists {
    ($store:ident, $a:expr, $b:expr) => {{
        let mut builder = unsafe { builder_over(&mut $store) };
        push_list(&mut builder, Type::Int, Box::new(Def($a)));
        push_list(&mut builder, Type::Ip, Box::new(Def($b)));
        builder.build()
    }};
}

/// The matchers `ExecutionContext::new` creates for that scheme (one per list,
/// registration order), as a local array.
fn matchers_of(s: &Scheme) -> [Box<dyn ListMatcher>; 2] {
    [
        list_ref(s, 0).definition().new_matcher(),
        list_ref(s, 1).definition().new_matcher(),
    ]
}

// ---------------------------------------------------------------------------
// K3: clear
// ---------------------------------------------------------------------------

/// K3 `clear()`: afterwards every field is empty and `clear` was called exactly
/// once on EVERY list matcher - whether or not any field value was set
/// (presence pattern P0/P1 is a constant of the obligation, so the "nothing is
/// set" context is its own obligation).  The scheme binding, the number of
/// slots and the matchers' identity are kept.
fn clear_contract<const K0: usize, const K1: usize, const P0: bool, const P1: bool>() {
    let a: i64 = kani::any();
    let b: i64 = kani::any();
    let mut f = field_store2(ty::<K0>(), ty::<K1>());
    let s = scheme_with_lists!(f, a, b);
    let m0: i64 = kani::any();
    let m1: i64 = kani::any();
    let (a0, a1) = (l1(m0), l1(m1));
    let (b0, b1) = (l2(&a0), l2(&a1));
    let mut slots = [
        if P0 { Some(value::<K0>(m0, &a0, &b0)) } else { None },
        if P1 { Some(value::<K1>(m1, &a1, &b1)) } else { None },
    ];
    let mut ms = matchers_of(&s);
    let mut ctx = unsafe { context_over(&s, &mut slots[..], &mut ms[..], ()) };
    assert!(ctx.list_matchers.len() == 2);
    assert!(rec(&*ctx.list_matchers[0]).cleared == 0 && rec(&*ctx.list_matchers[1]).cleared == 0);
    assert!(slot_is::<K0>(&ctx.values[0], P0, m0) && slot_is::<K1>(&ctx.values[1], P1, m1));

    ctx.clear();

    assert!(ctx.values.len() == 2);
    assert!(ctx.values[0].is_none() && ctx.values[1].is_none(), "clear empties every field");
    assert!(ctx.get_field_value(field_ref(&s, 0)).is_none() && ctx.get_field_value(field_ref(&s, 1)).is_none());
    assert!(ctx.list_matchers.len() == 2);
    assert!(rec(&*ctx.list_matchers[0]).cleared == 1, "clear is forwarded to the first list matcher");
    assert!(rec(&*ctx.list_matchers[1]).cleared == 1, "clear is forwarded to every list matcher");
    assert!(rec(&*ctx.list_matchers[0]).id == a && rec(&*ctx.list_matchers[1]).id == b);
    assert!(*ctx.scheme() == s);
    kani::cover!(true);
    std::mem::forget(ctx);
    std::mem::forget(s);
    std::mem::forget((slots, ms, f));
    std::mem::forget((b0, b1));
    std::mem::forget((a0, a1));
}

macro_rules! clear_harness {
    ($($name:ident: $k0:literal, $k1:literal, $p0:literal, $p1:literal;)*) => {
        $(
            #[kani::proof]
            #[kani::unwind(3)]
            fn $name() {
                clear_contract::<$k0, $k1, $p0, $p1>()
            }
        )*
    };
}

clear_harness! {
    clear__no_value_set_still_clears_matchers: 0, 1, false, false;
    clear__first_set: 0, 1, true, false;
    clear__second_set_bytes: 0, 1, false, true;
    clear__both_set: 0, 1, true, true;
    clear__array_int_value_set: 2, 1, true, true;
    clear__nested_array_value_set: 4, 0, true, false;
}

// ---------------------------------------------------------------------------
// K4: clone_with
// ---------------------------------------------------------------------------

/// K4 `clone_with(u)`, values: the clone has the same scheme, an equal view and
/// the given user data; afterwards the two are independent: a set on either
/// side leaves the other unchanged.  (Scheme without lists; the matchers are
/// the next obligation.)
fn clone_with_values_contract<const K0: usize, const P0: bool, const P1: bool>() {
    let mut f = field_store2(ty::<K0>(), ty::<6>());
    let s = unsafe { builder_over(&mut f) }.build();
    let m0: i64 = kani::any();
    let m1: i64 = kani::any();
    let x: i64 = kani::any();
    let (a0, ax) = (l1(m0), l1(x));
    let (b0, bx) = (l2(&a0), l2(&ax));
    let mut slots = [
        if P0 { Some(value::<K0>(m0, &a0, &b0)) } else { None },
        if P1 { Some(LhsValue::Bool(m1 & 1 == 0)) } else { None },
    ];
    let mut ms = no_matchers();
    let mut ctx = unsafe { context_over(&s, &mut slots[..], &mut ms[..], ()) };
    let u: u8 = kani::any();

    let mut c = ctx.clone_with(u);

    assert!(*c.scheme() == s && *ctx.scheme() == s, "the clone is bound to the same scheme");
    assert!(*c.get_user_data() == u);
    assert!(c.values.len() == 2 && ctx.values.len() == 2);
    assert!(slot_is::<K0>(&c.values[0], P0, m0) && slot_is::<6>(&c.values[1], P1, m1), "the clone has an equal view");
    assert!(slot_is::<K0>(&ctx.values[0], P0, m0) && slot_is::<6>(&ctx.values[1], P1, m1), "cloning does not change the original");
    assert!(c.list_matchers.len() == 0 && ctx.list_matchers.len() == 0);

    // a write to the clone is not seen by the original
    let r = c.set_field_value(field_ref(&s, 0), value::<K0>(x, &ax, &bx));
    assert!(r.is_ok());
    std::mem::forget(r);
    assert!(slot_is::<K0>(&c.values[0], true, x));
    assert!(slot_is::<K0>(&ctx.values[0], P0, m0), "a write to the clone leaves the original unchanged");
    // a write to the original is not seen by the clone
    let y: i64 = kani::any();
    let r = ctx.set_field_value(field_ref(&s, 1), LhsValue::Bool(y & 1 == 0));
    assert!(r.is_ok());
    std::mem::forget(r);
    assert!(slot_is::<6>(&ctx.values[1], true, y));
    assert!(slot_is::<6>(&c.values[1], P1, m1), "a write to the original leaves the clone unchanged");
    kani::cover!(x != m0 && (y & 1) != (m1 & 1));
    std::mem::forget(c);
    std::mem::forget(ctx);
    std::mem::forget(s);
    std::mem::forget((slots, ms, f));
    std::mem::forget((b0, bx));
    std::mem::forget((a0, ax));
}

macro_rules! clone_harness {
    ($($name:ident: $k0:literal, $p0:literal, $p1:literal;)*) => {
        $(
            #[kani::proof]
            #[kani::unwind(3)]
            #[kani::stub(<crate::types::ExpectedTypeList as std::convert::From<crate::types::Type>>::from, crate::types::verif_kani::c08::expected_type_list_from_type__contract)]
            fn $name() {
                clone_with_values_contract::<$k0, $p0, $p1>()
            }
        )*
    };
}

clone_harness! {
    clone_with__values_independent_both_set: 0, true, true;
    clone_with__values_independent_none_set: 0, false, false;
    clone_with__values_independent_first_set: 0, true, false;
    clone_with__values_independent_bytes_value: 1, true, true;
}

/// K4 `clone_with(u)`, list matchers: the clone gets a copy of every matcher
/// with its state; afterwards matcher state is independent in both directions.
#[kani::proof]
#[kani::unwind(3)]
fn clone_with__matchers_cloned_and_independent() {
    let a: i64 = kani::any();
    let b: i64 = kani::any();
    let mut f = field_store2(Type::Int, Type::Bool);
    let s = scheme_with_lists!(f, a, b);
    let mut slots: [Option<LhsValue<'static>>; 2] = [None, None];
    let mut ms = matchers_of(&s);
    let mut ctx = unsafe { context_over(&s, &mut slots[..], &mut ms[..], ()) };
    let w: i64 = kani::any();
    rec_mut(ctx.get_list_matcher_mut(list_ref(&s, 1))).id = w;

    let mut c = ctx.clone_with(());

    assert!(*c.scheme() == s);
    assert!(c.list_matchers.len() == 2 && ctx.list_matchers.len() == 2);
    assert!(rec(&*c.list_matchers[0]).id == a && rec(&*c.list_matchers[1]).id == w, "matchers are cloned with their state");
    assert!(rec(&*ctx.list_matchers[0]).id == a && rec(&*ctx.list_matchers[1]).id == w, "cloning does not change the original");
    let z: i64 = kani::any();
    rec_mut(c.get_list_matcher_mut(list_ref(&s, 0))).id = z;
    assert!(rec(&*ctx.list_matchers[0]).id == a, "matcher state of the original is independent of the clone");
    let y: i64 = kani::any();
    rec_mut(ctx.get_list_matcher_mut(list_ref(&s, 1))).id = y;
    assert!(rec(&*c.list_matchers[1]).id == w, "matcher state of the clone is independent of the original");
    assert!(rec(&*c.list_matchers[0]).id == z && rec(&*ctx.list_matchers[1]).id == y);
    kani::cover!(z != a && y != w);
    std::mem::forget(c);
    std::mem::forget(ctx);
    std::mem::forget(s);
    std::mem::forget((slots, ms, f));
}

// ---------------------------------------------------------------------------
// K5: borrow_with / take_with
// ---------------------------------------------------------------------------

/// K5 `borrow_with(u)`: the guard sees the original's view (values and
/// matchers) with the given user data; writes through the guard (a field value
/// and a matcher's state) are the original's after the guard is dropped:
/// values AND list matchers are restored, nothing else changes.
fn borrow_with_contract<const P0: bool, const P1: bool>() {
    let a: i64 = kani::any();
    let b: i64 = kani::any();
    let mut f = field_store2(ty::<0>(), ty::<6>());
    let s = scheme_with_lists!(f, a, b);
    let m0: i64 = kani::any();
    let m1: i64 = kani::any();
    let mut slots = [
        if P0 { Some(LhsValue::Int(m0)) } else { None },
        if P1 { Some(LhsValue::Bool(m1 & 1 == 0)) } else { None },
    ];
    let mut ms = matchers_of(&s);
    let w: u16 = kani::any();
    let mut ctx = unsafe { context_over(&s, &mut slots[..], &mut ms[..], w) };
    let u: u8 = kani::any();
    let x: i64 = kani::any();
    let z: i64 = kani::any();
    {
        let mut g = ctx.borrow_with(u);
        assert!(*g.scheme() == s, "the borrowed context is bound to the same scheme");
        assert!(*g.get_user_data() == u);
        assert!(g.values.len() == 2);
        assert!(slot_is::<0>(&g.values[0], P0, m0) && slot_is::<6>(&g.values[1], P1, m1), "the guard sees the original's values");
        assert!(g.list_matchers.len() == 2 && rec(&*g.list_matchers[0]).id == a && rec(&*g.list_matchers[1]).id == b);
        let r = g.set_field_value(field_ref(&s, 0), LhsValue::Int(x));
        match r {
            Ok(prev) => {
                assert!(slot_is::<0>(&prev, P0, m0));
                std::mem::forget(prev);
            }
            Err(e) => {
                std::mem::forget(e);
                assert!(false, "a well-typed set through the guard succeeds");
            }
        }
        rec_mut(g.get_list_matcher_mut(list_ref(&s, 1))).id = z;
        // guard dropped here: the original is restored
    }
    assert!(ctx.values.len() == 2, "the values are restored into the original");
    assert!(slot_is::<0>(&ctx.values[0], true, x), "a write through the guard is seen by the original");
    assert!(slot_is::<6>(&ctx.values[1], P1, m1), "untouched fields are restored unchanged");
    assert!(ctx.list_matchers.len() == 2, "the list matchers are restored into the original");
    assert!(rec(&*ctx.list_matchers[0]).id == a, "untouched matchers are restored unchanged");
    assert!(rec(&*ctx.list_matchers[1]).id == z, "matcher state written through the guard is seen by the original");
    assert!(*ctx.get_user_data() == w, "the original's user data is its own");
    assert!(*ctx.scheme() == s);
    match ctx.get_field_value(field_ref(&s, 0)) {
        Some(LhsValue::Int(v)) => {
            assert!(*v == x);
        }
        _ => {
            assert!(false, "reads return the last value set");
        }
    }
    kani::cover!(x != m0 && z != b);
    std::mem::forget(ctx);
    std::mem::forget(s);
    std::mem::forget((slots, ms, f));
}

macro_rules! borrow_harness {
    ($($name:ident: $p0:literal, $p1:literal;)*) => {
        $(
            #[kani::proof]
            #[kani::unwind(3)]
            #[kani::stub(<crate::types::ExpectedTypeList as std::convert::From<crate::types::Type>>::from, crate::types::verif_kani::c08::expected_type_list_from_type__contract)]
            fn $name() {
                borrow_with_contract::<$p0, $p1>()
            }
        )*
    };
}

borrow_harness! {
    borrow_with__writes_through_both_set: true, true;
    borrow_with__writes_through_none_set: false, false;
    borrow_with__writes_through_second_set: false, true;
}

/// `take_with(f)`: the view (values, matchers, scheme) moves unchanged into the
/// new context; the user data is f(old user data).
fn take_with_contract<const K0: usize, const P0: bool, const P1: bool>() {
    let a: i64 = kani::any();
    let b: i64 = kani::any();
    let mut f = field_store2(ty::<K0>(), ty::<6>());
    let s = scheme_with_lists!(f, a, b);
    let m0: i64 = kani::any();
    let m1: i64 = kani::any();
    let a0 = l1(m0);
    let b0 = l2(&a0);
    let mut slots = [
        if P0 { Some(value::<K0>(m0, &a0, &b0)) } else { None },
        if P1 { Some(LhsValue::Bool(m1 & 1 == 0)) } else { None },
    ];
    let mut ms = matchers_of(&s);
    let w: u8 = kani::any();
    let mut ctx = unsafe { context_over(&s, &mut slots[..], &mut ms[..], w) };
    let z: i64 = kani::any();
    rec_mut(ctx.get_list_matcher_mut(list_ref(&s, 0))).id = z;
    let t = ctx.take_with(|old| (old as u16) + 256);
    assert!(*t.scheme() == s);
    assert!(*t.get_user_data() == (w as u16) + 256);
    assert!(t.values.len() == 2 && t.list_matchers.len() == 2);
    assert!(slot_is::<K0>(&t.values[0], P0, m0) && slot_is::<6>(&t.values[1], P1, m1), "take_with preserves the values");
    assert!(rec(&*t.list_matchers[0]).id == z && rec(&*t.list_matchers[1]).id == b, "take_with preserves the matchers");
    kani::cover!(true);
    std::mem::forget(t);
    std::mem::forget(s);
    std::mem::forget((slots, ms, f));
    std::mem::forget(b0);
    std::mem::forget(a0);
}

#[kani::proof]
#[kani::unwind(3)]
fn take_with__preserves_view_both_set() {
    take_with_contract::<2, true, true>()
}

#[kani::proof]
#[kani::unwind(3)]
fn take_with__preserves_view_first_empty() {
    take_with_contract::<0, false, true>()
}
