//! C08 obligations: an execution context is a typed map from its scheme's
//! fields to optional values.  Abstract view: slots[i] = values[i] (one per
//! field) + the scheme identity.  Invariant: slot i is None or has the field's
//! declared type.  Each operation's contract is stated from an arbitrary
//! pre-state satisfying the invariant and over the WHOLE view.
use super::super::*;
use crate::lhs_types::{Array, Bytes, Map};
use crate::scheme::verif_kani::common::{field_ref, scheme_of};
use crate::types::Type;

static BYTES: [u8; 2] = [0xff, 0x61];

/// The type pool: 0 Int, 1 Bytes, 2 Array(Int), 3 Array(Bytes),
/// 4 Array(Array(Int)), 5 Map(Int).
fn ty(k: usize) -> Type {
    match k {
        0 => Type::Int,
        1 => Type::Bytes,
        2 => Type::Array(Type::Int.into()),
        3 => Type::Array(Type::Bytes.into()),
        4 => Type::Array(Type::Array(Type::Int.into()).into()),
        _ => Type::Map(Type::Int.into()),
    }
}

/// A value of pool type k carrying the marker `x` (so that two values of the
/// same type can be told apart).
fn value(k: usize, x: i64) -> LhsValue<'static> {
    match k {
        0 => LhsValue::Int(x),
        1 => LhsValue::Bytes(Bytes::Borrowed(if x == 0 { &BYTES[..1] } else { &BYTES[..] })),
        2 => LhsValue::Array(Array::try_from_vec(Type::Int, vec![LhsValue::Int(x)]).unwrap()),
        3 => LhsValue::Array(Array::new(Type::Bytes)),
        4 => LhsValue::Array(Array::new(Type::Array(Type::Int.into()))),
        _ => LhsValue::Map(Map::new(Type::Int)),
    }
}

/// Marker of a stored value (inverse of `value` where a marker exists).
fn marker(v: &LhsValue<'_>) -> i64 {
    match v {
        LhsValue::Int(x) => *x,
        LhsValue::Bytes(b) => (b.len() as i64) - 1,
        LhsValue::Array(a) => match a.get(0) {
            Some(LhsValue::Int(x)) => *x,
            _ => -1,
        },
        _ => -1,
    }
}

fn invariant(ctx: &ExecutionContext<'_, ()>, ft: usize) -> bool {
    let ok0 = match &ctx.values[0] {
        None => true,
        Some(v) => v.get_type() == ty(ft),
    };
    let ok1 = match &ctx.values[1] {
        None => true,
        Some(v) => v.get_type() == Type::Int,
    };
    ok0 && ok1 && ctx.values.len() == 2
}

/// K1 set_field_value for field type FT and a value of kind VK:
/// Ok(prev) <=> the field belongs to the context's scheme and VK's full nested
/// type equals FT's; then slots' = slots[0 := Some(v)] and prev = old slot 0.
/// Otherwise Err(SchemeMismatch | TypeMismatch{expected, actual}) and the
/// whole view is unchanged.
fn set_field_value_contract<const FT: usize, const VK: usize>() {
    let s1 = scheme_of(&[(ty(FT), true), (Type::Int, true)], true);
    let s2 = scheme_of(&[(ty(FT), true), (Type::Int, true)], true);
    let mut ctx = ExecutionContext::<()>::new(&s1);
    // arbitrary pre-state satisfying the invariant
    let p0: i64 = kani::any();
    let p1: i64 = kani::any();
    let had0: bool = kani::any();
    let had1: bool = kani::any();
    if had0 {
        ctx.values[0] = Some(value(FT, p0));
    }
    if had1 {
        ctx.values[1] = Some(LhsValue::Int(p1));
    }
    assert!(invariant(&ctx, FT));
    let foreign: bool = kani::any();
    let x: i64 = kani::any();
    kani::assume(p0 >= 0 && p0 <= 1 && x >= 0 && x <= 1);
    let v = value(VK, x);
    let r = ctx.set_field_value(field_ref(if foreign { &s2 } else { &s1 }, 0), v);
    match r {
        Ok(prev) => {
            assert!(!foreign, "a field of another (structurally identical) scheme must be refused");
            assert!(FT == VK, "a value whose full nested type differs from the field's must be refused");
            assert!(prev.is_some() == had0, "the previously stored value is returned");
            if let Some(p) = &prev {
                assert!(p.get_type() == ty(FT) && (FT > 2 || marker(p) == p0));
            }
            match &ctx.values[0] {
                Some(now) => {
                    assert!(now.get_type() == ty(FT) && (FT > 2 || marker(now) == x), "the slot holds the value just set");
                }
                None => {
                    assert!(false, "the slot holds the value just set");
                }
            }
            kani::cover!(had0, "overwrite");
            kani::cover!(!had0, "first write");
            std::mem::forget(prev);
        }
        Err(SetFieldValueError::SchemeMismatch(_)) => {
            assert!(foreign, "scheme mismatch only for a foreign field");
            assert!(ctx.values[0].is_some() == had0, "failed set leaves the context unchanged");
            if let Some(now) = &ctx.values[0] {
                assert!(now.get_type() == ty(FT) && (FT > 2 || marker(now) == p0));
            }
            kani::cover!(FT == VK, "right type, wrong scheme");
        }
        Err(SetFieldValueError::TypeMismatch(e)) => {
            assert!(!foreign && FT != VK, "type mismatch only for a differently typed value");
            assert!(e.actual == ty(VK), "the error reports the value's type");
            assert!(ctx.values[0].is_some() == had0, "failed set leaves the context unchanged");
            if let Some(now) = &ctx.values[0] {
                assert!(now.get_type() == ty(FT) && (FT > 2 || marker(now) == p0));
            }
            std::mem::forget(e);
        }
        Err(e) => {
            std::mem::forget(e);
            assert!(false, "unexpected error kind");
        }
    }
    // frame: the other slot is untouched in every case
    match &ctx.values[1] {
        Some(LhsValue::Int(q)) => {
            assert!(had1 && *q == p1, "other fields are untouched");
        }
        None => {
            assert!(!had1, "other fields are untouched");
        }
        _ => {
            assert!(false);
        }
    }
    assert!(invariant(&ctx, FT), "every stored value has its field's declared type");
    // K2: reads return the last value set
    let got = ctx.get_field_value(field_ref(&s1, 1));
    assert!(got.is_some() == had1);
    std::mem::forget(ctx);
    std::mem::forget((s1, s2));
}

macro_rules! set_pairs {
    ($($name:ident: $ft:literal, $vk:literal;)*) => {
        $(
            #[kani::proof]
            #[kani::unwind(4)]
            fn $name() {
                set_field_value_contract::<$ft, $vk>()
            }
        )*
    };
}

set_pairs! {
    set_field_value__int_field_int_value: 0, 0;
    set_field_value__int_field_bytes_value: 0, 1;
    set_field_value__bytes_field_bytes_value: 1, 1;
    set_field_value__int_field_array_int_value: 0, 2;
    set_field_value__array_int_field_array_int_value: 2, 2;
    set_field_value__array_int_field_array_bytes_value: 2, 3;
    set_field_value__array_int_field_array_array_int_value: 2, 4;
    set_field_value__array_array_int_field_array_int_value: 4, 2;
    set_field_value__array_array_int_field_same: 4, 4;
    set_field_value__array_int_field_int_value: 2, 0;
    set_field_value__map_int_field_map_int_value: 5, 5;
    set_field_value__map_int_field_array_int_value: 5, 2;
    set_field_value__array_int_field_map_int_value: 2, 5;
}

/// K2: get_field_value returns exactly the slot; a foreign field panics
/// (the documented assertion), never reads another scheme's slot.
#[kani::proof]
#[kani::unwind(4)]
fn get_field_value__returns_slot() {
    let s1 = scheme_of(&[(Type::Int, true), (Type::Int, true)], true);
    let mut ctx = ExecutionContext::<()>::new(&s1);
    let a: i64 = kani::any();
    let had: bool = kani::any();
    if had {
        ctx.values[1] = Some(LhsValue::Int(a));
    }
    let i: usize = kani::any();
    kani::assume(i < 2);
    match ctx.get_field_value(field_ref(&s1, i)) {
        Some(LhsValue::Int(v)) => {
            assert!(i == 1 && had && *v == a, "reads return the last value set");
        }
        None => {
            assert!(i == 0 || !had);
        }
        _ => {
            assert!(false);
        }
    }
    std::mem::forget(ctx);
    std::mem::forget(s1);
}

#[kani::proof]
#[kani::unwind(4)]
#[kani::should_panic]
fn get_field_value__foreign_field_panics() {
    let s1 = scheme_of(&[(Type::Int, true)], true);
    let s2 = scheme_of(&[(Type::Int, true)], true);
    let ctx = ExecutionContext::<()>::new(&s1);
    let _ = ctx.get_field_value(field_ref(&s2, 0));
}

/// Scheme identity: equal iff the very same registry (clone), never a
/// structurally identical one.
#[kani::proof]
#[kani::unwind(4)]
fn scheme_eq__identity_only() {
    let s1 = scheme_of(&[(Type::Int, true)], true);
    let s2 = scheme_of(&[(Type::Int, true)], true);
    let c = s1.clone();
    assert!(s1 == c && c == s1, "a clone is the same scheme");
    assert!(s1 != s2, "a structurally identical scheme is a different scheme");
    std::mem::forget((s1, s2, c));
}
