//! Harness support: construct `Scheme` values under CBMC without going through the
//! `HashMap`-based registry (hashbrown's probe loop does not terminate under CBMC).
//! These functions only *construct values*; they are not a model of anything verified.
//! Properties about the name index (C16) are not claimed.
use super::super::*;
use crate::list_matcher::ListDefinition;

/// A scheme with the given (type, optional) fields, all named "f".
pub(crate) fn scheme_of(fields: &[(Type, bool)], nil_not_equal: bool) -> Scheme {
    let mut b = SchemeBuilder::new();
    let mut i = 0;
    while i < fields.len() {
        b.fields.push(FieldDefinition {
            name: Arc::from("f"),
            ty: fields[i].0,
            optional: fields[i].1,
        });
        i += 1;
    }
    b.set_nil_not_equal_behavior(nil_not_equal);
    b.build()
}

pub(crate) fn builder_of(fields: &[(Type, bool)]) -> SchemeBuilder {
    let mut b = SchemeBuilder::new();
    let mut i = 0;
    while i < fields.len() {
        b.fields.push(FieldDefinition {
            name: Arc::from("f"),
            ty: fields[i].0,
            optional: fields[i].1,
        });
        i += 1;
    }
    b
}

pub(crate) fn push_list(b: &mut SchemeBuilder, ty: Type, def: Box<dyn ListDefinition>) {
    b.lists.push((ty, def));
}

pub(crate) fn push_function(b: &mut SchemeBuilder, def: Box<dyn FunctionDefinition>) {
    b.functions.push((Arc::from("fun"), def));
}

pub(crate) fn field(scheme: &Scheme, index: usize) -> Field {
    Field {
        scheme: scheme.clone(),
        index,
    }
}

pub(crate) fn field_ref(scheme: &Scheme, index: usize) -> FieldRef<'_> {
    FieldRef { scheme, index }
}

pub(crate) fn list(scheme: &Scheme, index: usize) -> List {
    List {
        scheme: scheme.clone(),
        index,
    }
}

pub(crate) fn list_ref(scheme: &Scheme, index: usize) -> ListRef<'_> {
    ListRef { scheme, index }
}

pub(crate) fn function(scheme: &Scheme, index: usize) -> Function {
    Function {
        scheme: scheme.clone(),
        index,
    }
}

/// A scheme whose fields have the given distinct names (all mandatory unless stated).
pub(crate) fn scheme_named(fields: &[(&'static str, Type)], nil_not_equal: bool) -> Scheme {
    let mut b = SchemeBuilder::new();
    let mut i = 0;
    while i < fields.len() {
        b.fields.push(FieldDefinition {
            name: Arc::from(fields[i].0),
            ty: fields[i].1,
            optional: false,
        });
        i += 1;
    }
    b.set_nil_not_equal_behavior(nil_not_equal);
    b.build()
}

/// CONTRACT STUB for `Scheme::get(name)` - the single lookup of the name registry
/// (`HashMap`, hashbrown does not terminate under CBMC; C16 is not claimed): "returns
/// the field registered under exactly this name, else the function, else None".
/// Implemented as a linear search over the registration vectors.  Trusted.
pub(crate) fn scheme_get__contract<'s>(this: &'s Scheme, name: &str) -> Option<Identifier<'s>>
where
    's: 's, // makes 's early-bound, like the impl-level lifetime of the original
{
    let mut i = 0;
    while i < this.inner.fields.len() {
        if this.inner.fields[i].name.as_bytes() == name.as_bytes() {
            return Some(Identifier::Field(FieldRef { scheme: this, index: i }));
        }
        i += 1;
    }
    let mut i = 0;
    while i < this.inner.functions.len() {
        if this.inner.functions[i].0.as_bytes() == name.as_bytes() {
            return Some(Identifier::Function(FunctionRef { scheme: this, index: i }));
        }
        i += 1;
    }
    None
}
