//! C01 obligations: the scheme-wide nil-not-equal switch.
use super::super::*;
use super::common::*;

/// K6: default is `true`; the setter stores exactly the given behaviour; the
/// built scheme reports it.
#[kani::proof]
#[kani::unwind(3)]
fn nil_not_equal_behavior__default_and_setter() {
    let b = SchemeBuilder::new();
    let s = b.build();
    assert!(s.nil_not_equal_behavior(), "nil != x is true by default");
    std::mem::forget(s);
    let v: bool = kani::any();
    let mut b = SchemeBuilder::new();
    b.set_nil_not_equal_behavior(v);
    let s = b.build();
    assert!(s.nil_not_equal_behavior() == v, "configured nil-not-equal behaviour is what the scheme reports");
    std::mem::forget(s);
}
