//! C06 obligations: index literals `[*]`, `[n]` (0 ..= 2^32-1) and `["utf-8 key"]`.
use super::super::*;
use crate::lex::verif_kani::common::*;

/// Every ASCII string of exactly N bytes that does not start with a quote:
/// `*` => MapEach; otherwise accepted <=> it starts with an integer literal in
/// 0..=u32::MAX (all <= 4-character literals are), negative ones are rejected.
fn field_index_lex<const N: usize>() {
    let mut buf = [0u8; N];
    let mut i = 0;
    while i < N {
        buf[i] = any_ascii();
        i += 1;
    }
    kani::assume(buf[0] != b'"');
    let input = ascii_str(&buf, N);
    let r = FieldIndex::lex(input);
    if buf[0] == b'*' {
        match r {
            Ok((FieldIndex::MapEach, rest)) => {
                assert!(is_suffix_at(input, rest, 1));
            }
            _ => {
                assert!(false, "* is the map-each index");
            }
        }
        return;
    }
    match (ref_int(&buf, N), r) {
        (Some((v, n)), Ok((idx, rest))) => {
            assert!(v >= 0, "negative indexes are rejected");
            match idx {
                FieldIndex::ArrayIndex(u) => {
                    assert!(u as i64 == v, "an index literal denotes its value");
                }
                _ => {
                    assert!(false, "an integer literal is an array index");
                }
            }
            assert!(is_suffix_at(input, rest, n), "exactly the literal's characters are consumed");
            kani::cover!(v == 0);
            kani::cover!(v > 9);
        }
        (Some((v, _)), Err(e)) => {
            assert!(v < 0, "a non-negative index literal is accepted");
            kani::cover!(true, "negative index rejected");
            std::mem::forget(e);
        }
        (None, Ok(x)) => {
            std::mem::forget(x);
            assert!(false, "malformed index accepted");
        }
        (None, Err(e)) => {
            std::mem::forget(e);
        }
    }
}

#[kani::proof]
#[kani::unwind(6)]
fn field_index_lex__all_ascii_len2() {
    field_index_lex::<2>()
}

#[kani::proof]
#[kani::unwind(7)]
fn field_index_lex__all_ascii_len3() {
    field_index_lex::<3>()
}

/// Range of array indexes: 0 ..= 2^32 - 1 (concrete boundary literals:
/// regression obligations).
#[kani::proof]
#[kani::unwind(14)]
fn field_index_lex__u32_boundaries() {
    let r = FieldIndex::lex("4294967295]");
    assert!(matches!(r, Ok((FieldIndex::ArrayIndex(u32::MAX), "]"))));
    std::mem::forget(r);
    let r = FieldIndex::lex("4294967296]");
    assert!(r.is_err(), "oversized indexes are rejected");
    std::mem::forget(r);
    let r = FieldIndex::lex("0x100000000]");
    assert!(r.is_err(), "oversized indexes are rejected");
    std::mem::forget(r);
    let r = FieldIndex::lex("-1]");
    assert!(r.is_err(), "negative indexes are rejected");
    std::mem::forget(r);
    let r = FieldIndex::lex("0xffffffff]");
    assert!(matches!(r, Ok((FieldIndex::ArrayIndex(u32::MAX), "]"))));
    std::mem::forget(r);
}

/// Map keys: a quoted string whose decoded bytes (two arbitrary bytes written
/// as \xHH\xHH) are valid UTF-8 is the key of exactly those bytes; anything
/// else is rejected.
#[kani::proof]
#[kani::unwind(14)]
fn field_index_lex__utf8_keys_only() {
    const HEX: &[u8; 16] = b"0123456789abcdef";
    let a: u8 = kani::any();
    let b: u8 = kani::any();
    let buf = [
        b'"', b'\\', b'x', HEX[(a >> 4) as usize], HEX[(a & 15) as usize],
        b'\\', b'x', HEX[(b >> 4) as usize], HEX[(b & 15) as usize], b'"', b']',
    ];
    let input = ascii_str(&buf, 11);
    let valid = (a < 0x80 && b < 0x80) || ((0xc2..=0xdf).contains(&a) && (0x80..=0xbf).contains(&b));
    match FieldIndex::lex(input) {
        Ok((FieldIndex::MapKey(k), rest)) => {
            assert!(valid, "non-UTF-8 keys are rejected");
            assert!(k.as_bytes().len() == 2 && k.as_bytes()[0] == a && k.as_bytes()[1] == b, "the key is exactly the decoded bytes");
            assert!(is_suffix_at(input, rest, 10));
            kani::cover!(a >= 0xc2, "two-byte UTF-8 sequence as key");
            std::mem::forget(k);
        }
        Ok(x) => {
            std::mem::forget(x);
            assert!(false, "a quoted index is a map key");
        }
        Err(e) => {
            assert!(!valid, "UTF-8 keys are accepted");
            std::mem::forget(e);
        }
    }
}
