//! C08 support inside the scheme module (needs the private `fields` vector):
//! a scheme whose fields have distinct names, and the CONTRACT STUB of
//! `Scheme::get_field` used by the `set_field_value_from_name` obligations.
use super::super::*;

/// Storage for two field definitions ("a": ta, "b": tb, both optional), to be kept in a LOCAL of
/// the harness (see `builder_over`).
pub(crate) struct FieldStore2([FieldDefinition; 2]);

pub(crate) fn field_store2(ta: Type, tb: Type) -> FieldStore2 {
    FieldStore2([
        FieldDefinition {
            name: Arc::from("a"),
            ty: ta,
            optional: true,
        },
        FieldDefinition {
            name: Arc::from("b"),
            ty: tb,
            optional: true,
        },
    ])
}

/// A builder whose `fields` vector is backed by caller-owned TYPED storage (a local array) instead
/// of a heap buffer, so that CBMC folds the field types read back from it (a heap buffer is an
/// untyped byte array to CBMC: `field.get_type() == value.get_type()` is then not decided during
/// symbolic execution and both outcomes of every type check are explored).  Like `scheme_of`, it
/// fills `SchemeBuilder.fields` directly (the `HashMap` name index stays empty: hashbrown is out of
/// CBMC's reach).  The scheme built from it must be `mem::forget`-ed before the storage goes out of
/// scope (the vector is never freed or grown).  Constructs a value; not a model.
pub(crate) unsafe fn builder_over(store: *mut FieldStore2) -> SchemeBuilder {
    let mut b = SchemeBuilder::new();
    let v = unsafe { Vec::from_raw_parts((*store).0.as_mut_ptr(), 2, 2) };
    let old = std::mem::replace(&mut b.fields, v);
    std::mem::forget(old);
    b
}

/// A scheme with the given (name, type) optional fields (heap-backed; used where field types are
/// not read).
pub(crate) fn scheme_named(fields: &[(&str, Type)]) -> Scheme {
    let mut b = SchemeBuilder::new();
    let mut i = 0;
    while i < fields.len() {
        b.fields.push(FieldDefinition {
            name: Arc::from(fields[i].0),
            ty: fields[i].1,
            optional: true,
        });
        i += 1;
    }
    b.build()
}

/// TRUSTED CONTRACT STUB for `Scheme::get_field(name)` (the real body is a
/// `HashMap` lookup in `items`, which CBMC cannot execute).  Documented contract
/// of the callee: `Ok(f)` with `f` the field of THIS scheme registered under
/// `name` (names are unique, `add_field` refuses redefinition), else
/// `Err(UnknownFieldError)`.  Implemented as a linear search over `fields`.
/// What is thereby NOT verified: that the `items` index agrees with `fields`
/// (claimed by no C08 obligation; listed under `unverified`).
/// (Written as a method of the same `impl<'s> Scheme` shape: Kani requires the stub to have the
/// generic parameters of the original.)
impl<'s> Scheme {
    pub(crate) fn get_field__contract(&'s self, name: &str) -> Result<FieldRef<'s>, UnknownFieldError> {
        get_field_linear(self, name)
    }
}

/// Linear search, written without a loop for the (at most two-field) schemes of the obligations:
/// with no loop of two iterations in the harness, `#[kani::unwind(2)]` suffices, which also bounds
/// the depth to which CBMC unrolls the recursive `LhsValue` drop glue - needed for a VIOLATION
/// (rather than a timeout) when a mutated `set_field_value_from_name` drops the old value.
fn get_field_linear<'s>(this: &'s Scheme, name: &str) -> Result<FieldRef<'s>, UnknownFieldError> {
    let n = this.inner.fields.len();
    assert!(n <= 2, "the contract stub is written for schemes of at most two fields");
    if n > 0 && &*this.inner.fields[0].name == name {
        return Ok(FieldRef {
            scheme: this,
            index: 0,
        });
    }
    if n > 1 && &*this.inner.fields[1].name == name {
        return Ok(FieldRef {
            scheme: this,
            index: 1,
        });
    }
    Err(UnknownFieldError)
}

/// Scheme identity: equal iff the very same registry (a clone of the handle),
/// never a structurally identical one - the relation every "belongs to the
/// context's scheme" test of C08 is built on.
#[kani::proof]
#[kani::unwind(4)]
fn scheme_eq__identity_only() {
    let s1 = scheme_named(&[("a", Type::Int)]);
    let s2 = scheme_named(&[("a", Type::Int)]);
    let c = s1.clone();
    assert!(s1 == c && c == s1, "a clone is the same scheme");
    assert!(s1 == s1);
    assert!(s1 != s2 && s2 != s1, "a structurally identical scheme is a different scheme");
    kani::cover!(true);
    std::mem::forget((s1, s2, c));
}
