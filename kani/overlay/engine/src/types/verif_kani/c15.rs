//! C15 obligations on the packed type encoding (engine/src/types.rs).
use super::super::*;
use super::common::*;

/// K1: push.  None <=> len == 32; otherwise the new layer becomes view[0],
/// the old view is shifted by one and nothing is lost, primitive unchanged,
/// wf re-established.
#[kani::proof]
fn compound_push__contract() {
    let c = any_compound_wf();
    let l = any_layer();
    let bit = layer_bit(&l);
    match c.push(l) {
        None => {
            kani::cover!(true, "push refuses");
            assert!(c.len == 32, "push returns None only at 32 layers");
        }
        Some(r) => {
            kani::cover!(c.len == 31, "push up to 32 layers");
            kani::cover!(c.len == 0, "push onto a primitive");
            assert!(c.len < 32, "push must refuse a 33rd layer");
            assert!(wf(&r), "push keeps well-formedness");
            assert!(r.len == c.len + 1, "push adds exactly one layer");
            assert!(r.primitive == c.primitive, "push keeps the primitive");
            assert!(r.layers & 1 == bit, "pushed layer is the outermost");
            assert!(r.layers >> 1 == c.layers, "push keeps all inner layers");
        }
    }
}

/// K2: pop is the inverse of push on the view.
#[kani::proof]
fn compound_pop__contract() {
    let c = any_compound_wf();
    let (r, l) = c.pop();
    match l {
        None => {
            kani::cover!(true, "pop on primitive");
            assert!(c.len == 0, "pop yields no layer only for a primitive");
            assert!(r == c, "pop leaves a primitive unchanged");
        }
        Some(l) => {
            kani::cover!(c.len == 32, "pop from 32 layers");
            kani::cover!(matches!(l, Layer::Map), "pop a map layer");
            kani::cover!(matches!(l, Layer::Array), "pop an array layer");
            assert!(c.len > 0);
            assert!(wf(&r), "pop keeps well-formedness");
            assert!(r.len == c.len - 1, "pop removes exactly one layer");
            assert!(r.primitive == c.primitive, "pop keeps the primitive");
            assert!(layer_bit(&l) == c.layers & 1, "pop returns the outermost layer");
            assert!(r.layers == c.layers >> 1, "pop keeps all inner layers");
        }
    }
}

/// push then pop is the identity (whole value, not just the touched bit).
#[kani::proof]
fn compound_push_pop__inverse() {
    let c = any_compound_wf();
    kani::assume(c.len < 32);
    let l = any_layer();
    let bit = layer_bit(&l);
    let pushed = c.push(l).unwrap();
    let (back, l2) = pushed.pop();
    assert!(back == c, "pop(push(c, l)) gives c back");
    assert!(layer_bit(&l2.unwrap()) == bit, "pop(push(c, l)) gives l back");
    kani::cover!(c.len == 31);
}

/// pop then push is the identity for every well-formed value with a layer.
#[kani::proof]
fn compound_pop_push__inverse() {
    let c = any_compound_wf();
    kani::assume(c.len > 0);
    let (r, l) = c.pop();
    let again = r.push(l.unwrap());
    assert!(again == Some(c), "push(pop(c)) gives c back");
    kani::cover!(c.len == 32);
}

fn any_type_over(inner: CompoundType) -> Type {
    match kani::any::<u8>() % 6 {
        0 => Type::Bool,
        1 => Type::Bytes,
        2 => Type::Int,
        3 => Type::Ip,
        4 => Type::Array(inner),
        _ => Type::Map(inner),
    }
}

/// K3a: recursive form -> packed form -> recursive form is the identity for
/// every `Type` whose inner compound is well-formed with fewer than 32 layers,
/// and the packed form is well-formed with one more layer.
#[kani::proof]
fn type_compound_type__roundtrip() {
    let inner = any_compound_wf();
    kani::assume(inner.len < 32);
    let t = any_type_over(inner);
    let c = CompoundType::from_type(t);
    assert!(wf(&c), "from_type yields a well-formed value");
    match t {
        Type::Array(i) | Type::Map(i) => {
            assert!(c.len == i.len + 1);
            assert!(c.primitive == i.primitive);
        }
        _ => { assert!(c.len == 0 && c.layers == 0); }
    }
    assert!(c.into_type() == t, "into_type(from_type(t)) == t");
    kani::cover!(matches!(t, Type::Map(i) if i.len == 31));
    kani::cover!(matches!(t, Type::Ip));
}

/// K3b: packed -> recursive -> packed is the identity on well-formed values;
/// the recursive form's head constructor is the outermost layer / primitive.
#[kani::proof]
fn compound_type_compound__roundtrip() {
    let c = any_compound_wf();
    let t = c.into_type();
    match t {
        Type::Array(i) => { assert!(c.len > 0 && c.layers & 1 == 0 && i.len == c.len - 1 && wf(&i)); }
        Type::Map(i) => { assert!(c.len > 0 && c.layers & 1 == 1 && i.len == c.len - 1 && wf(&i)); }
        Type::Bool => { assert!(c.len == 0 && c.primitive == PrimitiveType::Bool); }
        Type::Bytes => { assert!(c.len == 0 && c.primitive == PrimitiveType::Bytes); }
        Type::Int => { assert!(c.len == 0 && c.primitive == PrimitiveType::Int); }
        Type::Ip => { assert!(c.len == 0 && c.primitive == PrimitiveType::Ip); }
    }
    // a value with 32 layers pops to 31, so from_type's precondition holds
    assert!(CompoundType::from_type(t) == c, "from_type(into_type(c)) == c");
    kani::cover!(c.len == 32);
    kani::cover!(c.len == 0);
}

/// K3c: the checked conversion refuses exactly the types that would need a
/// 33rd packed layer, and agrees with from_type everywhere else.
#[kani::proof]
fn try_from_type__total() {
    let inner = any_compound_wf();
    let t = any_type_over(inner);
    let too_deep = matches!(t, Type::Array(i) | Type::Map(i) if i.len == 32);
    match CompoundType::try_from_type(t) {
        None => {
            kani::cover!(true, "refused");
            assert!(too_deep, "try_from_type refuses only over-deep types");
        }
        Some(c) => {
            assert!(!too_deep, "try_from_type must refuse over-deep types");
            assert!(c.into_type() == t);
        }
    }
}

/// from_type's real precondition: it panics when the inner compound already
/// has 32 layers (so every caller must establish len < 32).
#[kani::proof]
#[kani::should_panic]
fn from_type__panics_at_33_layers() {
    let inner = any_compound_wf();
    kani::assume(inner.len == 32);
    let t = if kani::any() { Type::Array(inner) } else { Type::Map(inner) };
    let _ = CompoundType::from_type(t);
}

/// C08/K6: on well-formed values the derived equality is equality of
/// (primitive, view): same length, same primitive, same layer at every
/// position below the length.
#[kani::proof]
fn compound_eq__is_structural() {
    let a = any_compound_wf();
    let b = any_compound_wf();
    let mask = |c: &CompoundType| if c.len == 32 { u32::MAX } else { (1u32 << c.len) - 1 };
    let same_view = a.len == b.len && (a.layers & mask(&a)) == (b.layers & mask(&b));
    let same = same_view && a.primitive == b.primitive;
    assert!((a == b) == same, "derived == on CompoundType is structural on wf values");
    assert!((Type::Array(a) == Type::Array(b)) == same);
    assert!(Type::Array(a) != Type::Map(a));
    kani::cover!(a == b && a.len == 32);
    kani::cover!(a != b && a.len == b.len && a.primitive == b.primitive);
}

/// The constructors reachable from the public API start well-formed.
#[kani::proof]
fn compound_new__wf() {
    let p = any_prim();
    let c = CompoundType::new(p);
    assert!(wf(&c) && c.len == 0 && c.layers == 0 && c.primitive == p);
    let d: CompoundType = p.into();
    assert!(d == c);
}

