//! C08 support in the types module: CONTRACT STUB for the construction of the
//! `expected` list of a `TypeMismatchError`.
use super::super::*;

/// CONTRACT STUB for `<ExpectedTypeList as From<Type>>::from(ty)`.
/// Contract of the callee: the list that contains exactly `ExpectedType::Type(ty)`.
/// The real body is `once(ExpectedType::Type(ty)).collect()` into a `BTreeSet`;
/// `BTreeSet::from_iter` collects into a `Vec` and SORTS it (std driftsort) before
/// bulk-building the tree.  Inside `set_field_value` the length of that vector
/// (0 or 1, from the niche-encoded `Option` inside `Once`) is not folded by CBMC,
/// which then explores the whole sorting network (measured: no result in 5 min
/// even for an Int value on an Int field).  The stub builds the same one-element
/// set with `insert`.
pub(crate) fn expected_type_list_from_type__contract(ty: Type) -> ExpectedTypeList {
    let mut set = BTreeSet::new();
    set.insert(ExpectedType::Type(ty));
    ExpectedTypeList(set)
}

// NOT REGISTERED (removed): obligations `expected_type_list_from_type__stub_agrees_with_real_<type>`
// comparing the stub with the real function on each pool type.  Even in isolation the real
// `BTreeSet::from_iter` (sort + bulk_push) does not verify: 110-130 s, 13 GB, and CBMC reports spurious
// failures inside alloc::collections::btree::node (unfolded lengths).  The stub therefore stays a
// TRUSTED contract stub, listed under `assumptions` in obligations/C08.toml.
