//! Contracts (as Kani obligations) for the bit-packed type encoding in
//! `engine/src/types.rs`.  Overlaid by /verif/bin/check; compiled only under
//! `cfg(kani)` through the hook line `#[cfg(kani)] mod verif_kani;`.
//!
//! Abstract view of a `CompoundType` c:  prim(c) = c.primitive,
//! view(c) = [bit 0 of c.layers, bit 1, .., bit c.len-1]  (outermost layer
//! first; 0 = Array, 1 = Map).  Invariant wf(c): len <= 32 and every bit of
//! `layers` at position >= len is zero.
use super::super::*;

pub(crate) fn wf(c: &CompoundType) -> bool {
    c.len <= 32 && (c.len == 32 || (c.layers >> c.len) == 0)
}

pub(crate) fn any_prim() -> PrimitiveType {
    match kani::any::<u8>() & 3 {
        0 => PrimitiveType::Bool,
        1 => PrimitiveType::Bytes,
        2 => PrimitiveType::Int,
        _ => PrimitiveType::Ip,
    }
}

pub(crate) fn any_layer() -> Layer {
    if kani::any() { Layer::Array } else { Layer::Map }
}

/// Any bit pattern at all (not necessarily well-formed).
pub(crate) fn any_compound_raw() -> CompoundType {
    CompoundType {
        layers: kani::any(),
        len: kani::any(),
        primitive: any_prim(),
    }
}

pub(crate) fn any_compound_wf() -> CompoundType {
    let c = any_compound_raw();
    kani::assume(wf(&c));
    c
}

pub(crate) fn layer_bit(l: &Layer) -> u32 {
    match l {
        Layer::Array => 0,
        Layer::Map => 1,
    }
}

/// Canary: a false postcondition about the real `push` that MUST be refuted.
/// If the verifier ever reports it as proved, the whole run is void.
#[kani::proof]
fn canary__must_fail() {
    let c = any_compound_wf();
    kani::assume(c.len < 32);
    let r = c.push(Layer::Map).unwrap();
    assert!(r.layers == c.layers, "CANARY: push(Map) never changes the layer bits");
}

/// A symbolic scalar `LhsValue` (Int / Bool / Ip v4 / Ip v6 / borrowed 2-byte Bytes).
pub(crate) fn any_scalar_value(bytes: &'static [u8; 2]) -> LhsValue<'static> {
    match kani::any::<u8>() % 5 {
        0 => LhsValue::Int(kani::any()),
        1 => LhsValue::Bool(kani::any()),
        2 => LhsValue::Ip(IpAddr::V4(Ipv4Addr::from(kani::any::<u32>()))),
        3 => LhsValue::Ip(IpAddr::V6(Ipv6Addr::from(kani::any::<u128>()))),
        _ => LhsValue::Bytes(Bytes::Borrowed(&bytes[..])),
    }
}

/// CONTRACT STUB for `<ExpectedTypeList as From<Type>>::from(ty)`: the list that contains
/// exactly `ExpectedType::Type(ty)`, built with `insert` (the real body goes through
/// `BTreeSet::from_iter`, whose sort CBMC cannot bound - see types/verif_kani/c08.rs).
/// TRUSTED; no obligation reads the list.
pub(crate) fn expected_type_list_of__contract(ty: Type) -> ExpectedTypeList {
    let mut set = BTreeSet::new();
    set.insert(ExpectedType::Type(ty));
    ExpectedTypeList(set)
}
