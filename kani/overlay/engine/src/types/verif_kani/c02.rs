//! C02 obligations, kernel K3: indexing into values through the real
//! `LhsValue::{get, extract, get_nested, extract_nested}`: an out-of-range
//! index, an absent key or a missing step yields NO value; otherwise exactly the
//! addressed element.  Direct calls (no context, no compiled closure).
//! Pre-states are built with `array_owned` / `array_borrowed` (trap 2).
use super::super::*;
use crate::lhs_types::verif_kani::common::{array_borrowed, array_owned};

fn ints<const N: usize>(xs: &[i64; N]) -> Vec<LhsValue<'static>> {
    let mut v = Vec::with_capacity(N);
    let mut i = 0;
    while i < N {
        v.push(LhsValue::Int(xs[i]));
        i += 1;
    }
    v
}

fn want_at<const N: usize>(xs: &[i64; N], idx: u32) -> Option<i64> {
    if (idx as usize) < N { Some(xs[idx as usize]) } else { None }
}

fn covers<const N: usize>(idx: u32) {
    kani::cover!(idx as usize == N, "index == len");
    kani::cover!(idx == u32::MAX, "u32::MAX");
    kani::cover!((idx as usize) < N, "index in range");
}

/// `value[n]` by reference on an array of N ints, every u32 index (incl. N,
/// u32::MAX), owned or borrowed representation; `get` and the one-step
/// `get_nested` agree.
fn get_index<const N: usize, const BORROWED: bool>() {
    let xs: [i64; N] = kani::any();
    let vals: [LhsValue<'static>; N] = std::array::from_fn(|i| LhsValue::Int(xs[i]));
    let arr = if BORROWED {
        LhsValue::Array(array_borrowed(Type::Int, &vals[..]))
    } else {
        LhsValue::Array(array_owned(Type::Int, ints(&xs)))
    };
    let idx: u32 = kani::any();
    let want = want_at(&xs, idx);
    let fi = FieldIndex::ArrayIndex(idx);
    match arr.get(&fi) {
        Ok(Some(LhsValue::Int(v))) => {
            assert!(want == Some(*v), "[n] yields exactly element n");
        }
        Ok(None) => {
            assert!(want.is_none(), "an in-range index yields a value");
        }
        Ok(Some(_)) => {
            assert!(false, "the element keeps its kind");
        }
        Err(e) => {
            std::mem::forget(e);
            assert!(false, "indexing an array with an integer is well-typed");
        }
    }
    let path = [FieldIndex::ArrayIndex(idx)];
    match arr.get_nested(&path) {
        Some(LhsValue::Int(v)) => {
            assert!(want == Some(*v), "[n] yields exactly element n");
        }
        None => {
            assert!(want.is_none(), "an out-of-range index yields no value, an in-range one a value");
        }
        Some(_) => {
            assert!(false);
        }
    }
    covers::<N>(idx);
    std::mem::forget(arr);
    std::mem::forget(vals);
}

/// `value[n]` by value (`extract` / one-step `extract_nested`).
fn extract_index<const N: usize, const BORROWED: bool, const NESTED: bool>() {
    let xs: [i64; N] = kani::any();
    let vals: [LhsValue<'static>; N] = std::array::from_fn(|i| LhsValue::Int(xs[i]));
    let arr = if BORROWED {
        LhsValue::Array(array_borrowed(Type::Int, &vals[..]))
    } else {
        LhsValue::Array(array_owned(Type::Int, ints(&xs)))
    };
    let idx: u32 = kani::any();
    let want = want_at(&xs, idx);
    let got = if NESTED {
        let path = [FieldIndex::ArrayIndex(idx)];
        arr.extract_nested(&path)
    } else {
        let fi = FieldIndex::ArrayIndex(idx);
        match arr.extract(&fi) {
            Ok(g) => g,
            Err(e) => {
                std::mem::forget(e);
                assert!(false, "indexing an array with an integer is well-typed");
                None
            }
        }
    };
    match &got {
        Some(LhsValue::Int(v)) => {
            assert!(want == Some(*v), "[n] yields exactly element n; out of range: no value");
        }
        None => {
            assert!(want.is_none(), "an in-range index yields a value");
        }
        Some(_) => {
            assert!(false, "the element keeps its kind");
        }
    }
    std::mem::forget(got);
    covers::<N>(idx);
    std::mem::forget(vals);
}

macro_rules! proof {
    ($name:ident, $unwind:literal, $body:expr) => {
        #[kani::proof]
        #[kani::unwind($unwind)]
        fn $name() {
            $body
        }
    };
}

proof!(lhs_get_index__owned_n0, 3, get_index::<0, false>());
proof!(lhs_get_index__owned_n2, 5, get_index::<2, false>());
proof!(lhs_get_index__borrowed_n2, 5, get_index::<2, true>());
proof!(lhs_get_index__owned_n3, 6, get_index::<3, false>());
proof!(lhs_extract_index__owned_n0, 3, extract_index::<0, false, false>());
proof!(lhs_extract_index__owned_n1, 2, extract_index::<1, false, false>());
proof!(lhs_extract_index__borrowed_n2, 5, extract_index::<2, true, false>());
proof!(lhs_extract_nested1__owned_n1, 2, extract_index::<1, false, true>());
proof!(lhs_extract_nested1__borrowed_n2, 5, extract_index::<2, true, true>());

/// Kind mismatches: an integer index on a non-array, a key on a non-map, [*] on
/// anything: an IndexAccessError, never a value.
#[kani::proof]
#[kani::unwind(4)]
fn index_kind_mismatch__is_an_error() {
    let x: i64 = kani::any();
    let arr = LhsValue::Array(array_owned(Type::Int, ints(&[x])));
    let int = LhsValue::Int(kani::any());
    let key = FieldIndex::MapKey(String::from("k"));
    let idx = FieldIndex::ArrayIndex(kani::any());
    let each = FieldIndex::MapEach;
    let r = arr.get(&key);
    assert!(r.is_err(), "a key on an array is an index access error");
    std::mem::forget(r);
    let r = int.get(&idx);
    assert!(r.is_err(), "an index on a scalar is an index access error");
    std::mem::forget(r);
    let r = int.get(&key);
    assert!(r.is_err(), "a key on a scalar is an index access error");
    std::mem::forget(r);
    let r = arr.get(&each);
    assert!(r.is_err(), "[*] is not a single-element access");
    std::mem::forget(r);
    let r = arr.as_ref().extract(&key);
    assert!(r.is_err());
    std::mem::forget(r);
    let r = arr.as_ref().extract(&each);
    assert!(r.is_err());
    std::mem::forget(r);
    let r = LhsValue::Int(x).extract(&idx);
    assert!(r.is_err());
    std::mem::forget(r);
    std::mem::forget((arr, key, idx, each));
}

fn ragged(a: i64, b: i64, c: i64) -> LhsValue<'static> {
    let inner0 = LhsValue::Array(array_owned(Type::Int, ints(&[a, b])));
    let inner1 = LhsValue::Array(array_owned(Type::Int, ints(&[c])));
    let mut rows = Vec::with_capacity(2);
    rows.push(inner0);
    rows.push(inner1);
    LhsValue::Array(array_owned(Type::Array(Type::Int.into()), rows))
}

fn ragged_want(a: i64, b: i64, c: i64, i: u32, j: u32) -> Option<i64> {
    match (i, j) {
        (0, 0) => Some(a),
        (0, 1) => Some(b),
        (1, 0) => Some(c),
        _ => None,
    }
}

/// `[i][j]` by reference on the ragged array of arrays {[a, b], [c]}, all u32
/// i, j: the step-by-step meaning; no value at the first missing step.
#[kani::proof]
#[kani::unwind(5)]
fn get_nested__ragged_stepwise_missing_is_none() {
    let (a, b, c): (i64, i64, i64) = kani::any();
    let outer = ragged(a, b, c);
    let i: u32 = kani::any();
    let j: u32 = kani::any();
    let want = ragged_want(a, b, c, i, j);
    let path = [FieldIndex::ArrayIndex(i), FieldIndex::ArrayIndex(j)];
    match outer.get_nested(&path) {
        Some(LhsValue::Int(v)) => {
            assert!(want == Some(*v), "[i][j] is element j of element i");
        }
        None => {
            assert!(want.is_none(), "a present element is found");
        }
        Some(_) => {
            assert!(false);
        }
    }
    // the empty path is the value itself
    assert!(matches!(outer.get_nested(&[]), Some(LhsValue::Array(_))));
    // a one-step path yields the row
    let row = [FieldIndex::ArrayIndex(i)];
    match outer.get_nested(&row) {
        Some(LhsValue::Array(r)) => {
            assert!((i == 0 && r.len() == 2) || (i == 1 && r.len() == 1));
        }
        None => {
            assert!(i >= 2);
        }
        Some(_) => {
            assert!(false);
        }
    }
    kani::cover!(i == 1 && j == 1, "ragged: second row is shorter");
    kani::cover!(i == 2, "outer index == len");
    kani::cover!(i == 0 && j == u32::MAX);
    std::mem::forget(outer);
}

/// `[I][j]` by value (`extract_nested`) on the borrowed view (`as_ref()` of a field
/// value) of the same ragged value; outer index I constant per obligation, j any u32.
fn extract_nested_ragged<const I: u32>() {
    let (a, b, c): (i64, i64, i64) = kani::any();
    // the whole value lives in fixed-size locals (borrowed representation throughout)
    let row0 = [LhsValue::Int(a), LhsValue::Int(b)];
    let row1 = [LhsValue::Int(c)];
    let rows = [
        LhsValue::Array(array_borrowed(Type::Int, &row0[..])),
        LhsValue::Array(array_borrowed(Type::Int, &row1[..])),
    ];
    let outer = LhsValue::Array(array_borrowed(Type::Array(Type::Int.into()), &rows[..]));
    let j: u32 = kani::any();
    let want = ragged_want(a, b, c, I, j);
    let path = [FieldIndex::ArrayIndex(I), FieldIndex::ArrayIndex(j)];
    let got = outer.as_ref().extract_nested(&path);
    match &got {
        Some(LhsValue::Int(v)) => {
            assert!(want == Some(*v), "[i][j] is element j of element i; missing step: no value");
        }
        None => {
            assert!(want.is_none(), "a present element is found");
        }
        Some(_) => {
            assert!(false);
        }
    }
    std::mem::forget(got);
    kani::cover!(j == 1, "second element / ragged: second row is shorter");
    kani::cover!(j == 0);
    kani::cover!(j == u32::MAX);
    std::mem::forget(outer);
    std::mem::forget(rows);
    std::mem::forget((row0, row1));
}

// NOT REGISTERED (three below): no result in 300 s - the intermediate row value's variant is not folded, the
// error arm of `extract` drops it => LhsValue::Map tear-down explored. The by-reference `get_nested` above is verified.
proof!(extract_nested__ragged_borrowed_row0, 3, extract_nested_ragged::<0>());
proof!(extract_nested__ragged_borrowed_row1, 3, extract_nested_ragged::<1>());
proof!(extract_nested__ragged_borrowed_row_out_of_range, 3, extract_nested_ragged::<2>());

/// A key on an EMPTY map: no value (maps with entries need BTreeMap insertion,
/// which is out of CBMC's reach - see unverified).
#[kani::proof]
#[kani::unwind(2)]
fn map_key_on_empty_map__no_value() {
    let m = LhsValue::Map(Map::new(Type::Int));
    let key = FieldIndex::MapKey(String::from("k"));
    let r = m.get(&key);
    assert!(matches!(r, Ok(None)), "an absent key yields no value");
    std::mem::forget(r);
    kani::cover!(true);
    std::mem::forget((m, key));
}

// with the mem::drop contract stub (see lhs_types/verif_kani/common.rs)
#[kani::proof]
#[kani::stub(std::mem::drop, crate::lhs_types::verif_kani::common::mem_drop__releases_nothing_observable)]
#[kani::solver(minisat)]
#[kani::unwind(3)]
fn lhs_extract_index__owned_n2() {
    extract_index::<2, false, false>()
}
