//! C02 obligations: indexing into values - `get`, `get_nested`, `extract`,
//! `extract_nested`: an out-of-range index, absent key or kind mismatch at any
//! step yields no value; otherwise exactly the addressed element.
use super::super::*;

fn int_array<const N: usize>(xs: &[i64; N]) -> Array<'static> {
    let mut v = Vec::with_capacity(N);
    let mut i = 0;
    while i < N {
        v.push(LhsValue::Int(xs[i]));
        i += 1;
    }
    Array::try_from_vec(Type::Int, v).unwrap()
}

/// [n] on an array of N ints, every u32 index (incl. N, u32::MAX): owned and
/// borrowed representation, by reference (`get`) and by value (`extract`).
fn array_index<const N: usize>() {
    let xs: [i64; N] = kani::any();
    let arr = LhsValue::Array(int_array(&xs));
    let idx: u32 = kani::any();
    let fi = FieldIndex::ArrayIndex(idx);
    let want = if (idx as usize) < N { Some(xs[idx as usize]) } else { None };
    // by reference
    match arr.get(&fi) {
        Ok(Some(LhsValue::Int(v))) => {
            assert!(want == Some(*v), "[n] yields exactly element n");
        }
        Ok(None) => {
            assert!(want.is_none(), "an in-range index yields a value");
        }
        _ => {
            assert!(false, "indexing an array with an integer is well-typed");
        }
    }
    // nested API with a one-step path
    let path = [FieldIndex::ArrayIndex(idx)];
    match arr.get_nested(&path) {
        Some(LhsValue::Int(v)) => {
            assert!(want == Some(*v));
        }
        None => {
            assert!(want.is_none(), "an out-of-range index yields no value");
        }
        _ => {
            assert!(false);
        }
    }
    // by value, borrowed representation
    match arr.as_ref().extract(&fi) {
        Ok(Some(LhsValue::Int(v))) => {
            assert!(want == Some(v));
        }
        Ok(None) => {
            assert!(want.is_none());
        }
        _ => {
            assert!(false);
        }
    }
    kani::cover!(idx as usize == N, "index == len");
    kani::cover!(idx == u32::MAX);
    kani::cover!(N > 0 && idx as usize == N - 1, "last element");
    // by value, owned representation
    match arr.extract_nested(&path) {
        Some(LhsValue::Int(v)) => {
            assert!(want == Some(v));
        }
        None => {
            assert!(want.is_none());
        }
        _ => {
            assert!(false);
        }
    }
    std::mem::forget(fi);
    std::mem::forget(path);
}

#[kani::proof]
#[kani::unwind(4)]
fn array_index__exact_element_n0() {
    array_index::<0>()
}

#[kani::proof]
#[kani::unwind(5)]
fn array_index__exact_element_n2() {
    array_index::<2>()
}

#[kani::proof]
#[kani::unwind(6)]
fn array_index__exact_element_n3() {
    array_index::<3>()
}

/// Kind mismatches: integer index on a non-array, key on a non-map, [*] on
/// anything: an IndexAccessError, never a value.
#[kani::proof]
#[kani::unwind(4)]
fn index_kind_mismatch__is_an_error() {
    let xs: [i64; 1] = kani::any();
    let arr = LhsValue::Array(int_array(&xs));
    let int = LhsValue::Int(kani::any());
    let key = FieldIndex::MapKey(String::from("k"));
    let idx = FieldIndex::ArrayIndex(kani::any());
    let r = arr.get(&key);
    assert!(r.is_err(), "a key on an array is an index access error");
    std::mem::forget(r);
    let r = int.get(&idx);
    assert!(r.is_err(), "an index on a scalar is an index access error");
    std::mem::forget(r);
    let r = arr.get(&FieldIndex::MapEach);
    assert!(r.is_err(), "[*] is not a single-element access");
    std::mem::forget(r);
    let r = arr.as_ref().extract(&key);
    assert!(r.is_err());
    std::mem::forget(r);
    let r = arr.as_ref().extract(&FieldIndex::MapEach);
    assert!(r.is_err());
    std::mem::forget(r);
    std::mem::forget((arr, key, idx));
}

/// [i][j] on a ragged array of arrays {[a, b], [c]}: the path semantics is the
/// step-by-step one and stops with "no value" at the first missing step.
#[kani::proof]
#[kani::unwind(5)]
fn nested_path__stepwise_and_missing_is_none() {
    let a: i64 = kani::any();
    let b: i64 = kani::any();
    let c: i64 = kani::any();
    let inner0 = LhsValue::Array(int_array(&[a, b]));
    let inner1 = LhsValue::Array(int_array(&[c]));
    let outer = LhsValue::Array(
        Array::try_from_vec(Type::Array(Type::Int.into()), vec![inner0, inner1]).unwrap(),
    );
    let i: u32 = kani::any();
    let j: u32 = kani::any();
    let want = match (i, j) {
        (0, 0) => Some(a),
        (0, 1) => Some(b),
        (1, 0) => Some(c),
        _ => None,
    };
    let path = [FieldIndex::ArrayIndex(i), FieldIndex::ArrayIndex(j)];
    match outer.get_nested(&path) {
        Some(LhsValue::Int(v)) => {
            assert!(want == Some(*v), "[i][j] is element j of element i");
        }
        None => {
            assert!(want.is_none(), "a missing step yields no value");
        }
        _ => {
            assert!(false);
        }
    }
    match outer.as_ref().extract_nested(&path) {
        Some(LhsValue::Int(v)) => {
            assert!(want == Some(v));
        }
        None => {
            assert!(want.is_none());
        }
        _ => {
            assert!(false);
        }
    }
    // the empty path is the value itself
    assert!(matches!(outer.get_nested(&[]), Some(LhsValue::Array(_))));
    kani::cover!(i == 1 && j == 1, "ragged: second row is shorter");
    kani::cover!(i == 2, "outer index out of range");
    std::mem::forget(path);
    std::mem::forget(outer);
}
