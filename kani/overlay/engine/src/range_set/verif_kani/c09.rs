//! C09 obligations: `RangeSet::from` + `contains` is exact membership.
use super::super::*;
use std::net::{Ipv4Addr, Ipv6Addr};
use std::ops::RangeInclusive;

/// For N fully symbolic ranges lo_i..=hi_i (lo_i <= hi_i as the literal lexers
/// guarantee) in arbitrary order - overlapping, nested, touching, duplicated,
/// extreme - and a fully symbolic probe x:
///   contains(x) == exists i. lo_i <= x <= hi_i
/// and the stored ranges are sorted by start and pairwise disjoint.
fn range_set_i64<const N: usize>() {
    let mut v: Vec<RangeInclusive<i64>> = Vec::with_capacity(N);
    let mut los = [0i64; N];
    let mut his = [0i64; N];
    let mut i = 0;
    while i < N {
        let lo: i64 = kani::any();
        let hi: i64 = kani::any();
        kani::assume(lo <= hi);
        los[i] = lo;
        his[i] = hi;
        v.push(lo..=hi);
        i += 1;
    }
    let x: i64 = kani::any();
    let set = RangeSet::from(v);
    let got = set.contains(&x);
    let mut want = false;
    let mut i = 0;
    while i < N {
        want = want || (los[i] <= x && x <= his[i]);
        i += 1;
    }
    assert!(got == want, "x in the brace list <=> some listed range contains x");
    // (the stored representation - sorted, merged ranges - is deliberately NOT asserted:
    // the property speaks about membership only, and a different but correct
    // representation must not raise an alarm)
    if N > 0 {
        kani::cover!(got, "member");
    }
    kani::cover!(!got, "non-member");
    if N >= 2 {
        kani::cover!(los[0] > los[N - 1], "unsorted input");
        kani::cover!(got && los[0] <= his[1] && los[1] <= his[0], "member of overlapping ranges");
        kani::cover!(los[0] == i64::MIN && his[0] == i64::MAX, "extreme range");
    }
    std::mem::forget(set);
}

#[kani::proof]
#[kani::unwind(3)]
fn range_set_i64__membership_n0() {
    range_set_i64::<0>()
}

#[kani::proof]
#[kani::unwind(4)]
fn range_set_i64__membership_n1() {
    range_set_i64::<1>()
}

#[kani::proof]
#[kani::unwind(5)]
fn range_set_i64__membership_n2() {
    range_set_i64::<2>()
}

#[kani::proof]
#[kani::unwind(6)]
fn range_set_i64__membership_n3() {
    range_set_i64::<3>()
}

#[kani::proof]
#[kani::unwind(7)]
fn range_set_i64__membership_n4() {
    range_set_i64::<4>()
}

fn range_set_ipv4<const N: usize>() {
    let mut v: Vec<RangeInclusive<Ipv4Addr>> = Vec::with_capacity(N);
    let mut los = [0u32; N];
    let mut his = [0u32; N];
    let mut i = 0;
    while i < N {
        let lo: u32 = kani::any();
        let hi: u32 = kani::any();
        kani::assume(lo <= hi);
        los[i] = lo;
        his[i] = hi;
        v.push(Ipv4Addr::from(lo)..=Ipv4Addr::from(hi));
        i += 1;
    }
    let x: u32 = kani::any();
    let set = RangeSet::from(v);
    let got = set.contains(&Ipv4Addr::from(x));
    let mut want = false;
    let mut i = 0;
    while i < N {
        want = want || (los[i] <= x && x <= his[i]);
        i += 1;
    }
    assert!(got == want, "addr in the brace list <=> some listed range contains addr (numeric IPv4 order)");
    kani::cover!(got);
    kani::cover!(!got);
    std::mem::forget(set);
}

#[kani::proof]
#[kani::unwind(5)]
fn range_set_ipv4__membership_n2() {
    range_set_ipv4::<2>()
}

#[kani::proof]
#[kani::unwind(6)]
fn range_set_ipv4__membership_n3() {
    range_set_ipv4::<3>()
}

/// Same contract on the IPv6 instantiation (numeric order of the 128-bit address).
fn range_set_ipv6<const N: usize>() {
    let mut v: Vec<RangeInclusive<Ipv6Addr>> = Vec::with_capacity(N);
    let mut los = [0u128; N];
    let mut his = [0u128; N];
    let mut i = 0;
    while i < N {
        let lo: u128 = kani::any();
        let hi: u128 = kani::any();
        kani::assume(lo <= hi);
        los[i] = lo;
        his[i] = hi;
        v.push(Ipv6Addr::from(lo)..=Ipv6Addr::from(hi));
        i += 1;
    }
    let x: u128 = kani::any();
    let set = RangeSet::from(v);
    let got = set.contains(&Ipv6Addr::from(x));
    let mut want = false;
    let mut i = 0;
    while i < N {
        want = want || (los[i] <= x && x <= his[i]);
        i += 1;
    }
    assert!(got == want, "addr in the brace list <=> some listed range contains addr (numeric IPv6 order)");
    kani::cover!(got);
    kani::cover!(!got);
    std::mem::forget(set);
}

#[kani::proof]
// unwind 10: Ipv6Addr::cmp compares the eight 16-bit segments in a slice loop
#[kani::unwind(10)]
fn range_set_ipv6__membership_n1() {
    range_set_ipv6::<1>()
}

#[kani::proof]
#[kani::unwind(10)]
fn range_set_ipv6__membership_n2() {
    range_set_ipv6::<2>()
}

/// from_iter is `from(collect())`.
#[kani::proof]
#[kani::unwind(5)]
fn range_set_from_iter__same_as_from() {
    let a: i64 = kani::any();
    let b: i64 = kani::any();
    kani::assume(a <= b);
    let c: i64 = kani::any();
    let x: i64 = kani::any();
    let set: RangeSet<i64> = [a..=b, c..=c].into_iter().collect();
    assert!(set.contains(&x) == ((a <= x && x <= b) || x == c));
    std::mem::forget(set);
}
