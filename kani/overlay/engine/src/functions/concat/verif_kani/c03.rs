//! C03 obligations: concat returns its present arguments joined in order;
//! absent only if all are absent.
use super::super::*;
use crate::lhs_types::Bytes;

static A: [u8; 2] = [1, 2];
static B: [u8; 1] = [3];
static C: [u8; 2] = [4, 5];

/// Three Bytes arguments, each present or absent (typed absence).
#[kani::proof]
#[kani::unwind(8)]
fn concat_bytes__present_args_in_order() {
    let pa: bool = kani::any();
    let pb: bool = kani::any();
    let pc: bool = kani::any();
    let mk = |p: bool, s: &'static [u8]| -> Result<LhsValue<'static>, Type> {
        if p { Ok(LhsValue::Bytes(Bytes::Borrowed(s))) } else { Err(Type::Bytes) }
    };
    let args = [mk(pa, &A), mk(pb, &B), mk(pc, &C)];
    let mut it = args.into_iter();
    let got = concat_impl(&mut it);
    let mut want = [0u8; 5];
    let mut n = 0;
    if pa {
        want[n] = 1;
        want[n + 1] = 2;
        n += 2;
    }
    if pb {
        want[n] = 3;
        n += 1;
    }
    if pc {
        want[n] = 4;
        want[n + 1] = 5;
        n += 2;
    }
    match got {
        Some(LhsValue::Bytes(b)) => {
            assert!(pa || pb || pc, "absent only if all arguments are absent");
            assert!(b.len() == n, "the present arguments joined");
            let mut i = 0;
            while i < 5 {
                if i < n {
                    assert!(b[i] == want[i], "in order");
                }
                i += 1;
            }
            std::mem::forget(b);
        }
        None => {
            assert!(!pa && !pb && !pc, "present arguments give a present result");
        }
        Some(v) => {
            std::mem::forget(v);
            assert!(false, "bytes arguments give a bytes result");
        }
    }
}

/// Array(Int) arguments: {x}, absent, {y, z}.
#[kani::proof]
#[kani::unwind(8)]
fn concat_arrays__present_args_in_order() {
    let x: i64 = kani::any();
    let y: i64 = kani::any();
    let z: i64 = kani::any();
    let first_present: bool = kani::any();
    let a0 = Array::try_from_vec(Type::Int, vec![LhsValue::Int(x)]).unwrap();
    let a2 = Array::try_from_vec(Type::Int, vec![LhsValue::Int(y), LhsValue::Int(z)]).unwrap();
    let ty = Type::Array(Type::Int.into());
    let args: [Result<LhsValue<'static>, Type>; 3] = [
        if first_present { Ok(LhsValue::Array(a0)) } else { Err(ty) },
        Err(ty),
        Ok(LhsValue::Array(a2)),
    ];
    let mut it = args.into_iter();
    match concat_impl(&mut it) {
        Some(LhsValue::Array(arr)) => {
            assert!(arr.value_type() == Type::Int);
            if first_present {
                assert!(arr.len() == 3);
                assert!(matches!(arr.get(0), Some(LhsValue::Int(v)) if *v == x));
                assert!(matches!(arr.get(1), Some(LhsValue::Int(v)) if *v == y));
                assert!(matches!(arr.get(2), Some(LhsValue::Int(v)) if *v == z));
            } else {
                assert!(arr.len() == 2);
                assert!(matches!(arr.get(0), Some(LhsValue::Int(v)) if *v == y));
                assert!(matches!(arr.get(1), Some(LhsValue::Int(v)) if *v == z));
            }
            std::mem::forget(arr);
        }
        _ => {
            assert!(false, "array arguments give an array result");
        }
    }
}
