//! C03 obligations: the built-in concat (`concat_impl`, `concat_bytes`,
//! `concat_array`) returns its PRESENT arguments joined in order; the result is
//! absent only if all arguments are absent.  Direct calls on the real function
//! with an argument iterator of constant length and symbolic presence / contents.
use super::super::*;
use crate::lhs_types::verif_kani::common::array_owned;
use crate::lhs_types::Bytes;

/// Three one-byte Bytes arguments (symbolic bytes), each present or a typed absence.
/// NOT REGISTERED: no result in 300 s (the drop of every consumed argument explores the LhsValue::Map tear-down).
#[kani::proof]
#[kani::stub(std::mem::drop, crate::lhs_types::verif_kani::common::mem_drop__releases_nothing_observable)]
#[kani::unwind(4)]
fn concat_bytes__present_args_in_order() {
    let a: [u8; 1] = kani::any();
    let b: [u8; 1] = kani::any();
    let c: [u8; 1] = kani::any();
    let pa: bool = kani::any();
    let pb: bool = kani::any();
    let pc: bool = kani::any();
    let args: [Result<LhsValue<'_>, Type>; 3] = [
        if pa { Ok(LhsValue::Bytes(Bytes::Borrowed(&a[..]))) } else { Err(Type::Bytes) },
        if pb { Ok(LhsValue::Bytes(Bytes::Borrowed(&b[..]))) } else { Err(Type::Bytes) },
        if pc { Ok(LhsValue::Bytes(Bytes::Borrowed(&c[..]))) } else { Err(Type::Bytes) },
    ];
    let mut it = args.into_iter();
    let got = concat_impl(&mut it);
    let mut want = [0u8; 3];
    let mut n = 0;
    if pa {
        want[n] = a[0];
        n += 1;
    }
    if pb {
        want[n] = b[0];
        n += 1;
    }
    if pc {
        want[n] = c[0];
        n += 1;
    }
    match &got {
        Some(LhsValue::Bytes(r)) => {
            assert!(pa || pb || pc, "absent if all arguments are absent");
            assert!(r.len() == n, "exactly the present arguments joined");
            assert!(n < 1 || r[0] == want[0], "present arguments in order");
            assert!(n < 2 || r[1] == want[1], "present arguments in order");
            assert!(n < 3 || r[2] == want[2], "present arguments in order");
        }
        None => {
            assert!(!pa && !pb && !pc, "present arguments give a present result");
        }
        Some(_) => {
            assert!(false, "bytes arguments give a bytes result");
        }
    }
    kani::cover!(!pa && pb && !pc, "only the middle argument is present");
    kani::cover!(pa && !pb && pc, "an absent argument between present ones");
    kani::cover!(!pa && !pb && !pc, "all absent");
    std::mem::forget(got);
    std::mem::forget(it);
}

fn one(x: i64) -> Array<'static> {
    let mut v = Vec::with_capacity(1);
    v.push(LhsValue::Int(x));
    array_owned(Type::Int, v)
}

fn two(y: i64, z: i64) -> Array<'static> {
    let mut v = Vec::with_capacity(2);
    v.push(LhsValue::Int(y));
    v.push(LhsValue::Int(z));
    array_owned(Type::Int, v)
}

fn expect_elem(arr: &Array<'_>, i: usize, want: i64) {
    match arr.get(i) {
        Some(LhsValue::Int(v)) => {
            assert!(*v == want, "elements of the present arguments, in order");
        }
        _ => {
            assert!(false, "elements of the present arguments, in order");
        }
    }
}

/// NOT REGISTERED: no result in 300 s.
/// Array(Int) arguments: {x} (present or absent), ABSENT, {y, z}: the absent
/// middle argument does not stop the concatenation.
#[kani::proof]
#[kani::stub(std::mem::drop, crate::lhs_types::verif_kani::common::mem_drop__releases_nothing_observable)]
#[kani::unwind(4)]
fn concat_arrays__present_args_in_order() {
    let x: i64 = kani::any();
    let y: i64 = kani::any();
    let z: i64 = kani::any();
    let first_present: bool = kani::any();
    let ty = Type::Array(Type::Int.into());
    let args: [Result<LhsValue<'static>, Type>; 3] = [
        if first_present { Ok(LhsValue::Array(one(x))) } else { Err(ty) },
        Err(ty),
        Ok(LhsValue::Array(two(y, z))),
    ];
    let mut it = args.into_iter();
    let got = concat_impl(&mut it);
    match &got {
        Some(LhsValue::Array(arr)) => {
            assert!(arr.value_type() == Type::Int, "the element type is kept");
            if first_present {
                assert!(arr.len() == 3, "all present arguments contribute");
                expect_elem(arr, 0, x);
                expect_elem(arr, 1, y);
                expect_elem(arr, 2, z);
            } else {
                assert!(arr.len() == 2, "all present arguments contribute");
                expect_elem(arr, 0, y);
                expect_elem(arr, 1, z);
            }
        }
        Some(_) => {
            assert!(false, "array arguments give an array result");
        }
        None => {
            assert!(false, "a present argument gives a present result");
        }
    }
    kani::cover!(first_present);
    kani::cover!(!first_present);
    std::mem::forget(got);
    std::mem::forget(it);
}

/// All array arguments absent: the result is absent.
#[kani::proof]
#[kani::unwind(5)]
fn concat_arrays__all_absent_is_absent() {
    let ty = Type::Array(Type::Int.into());
    let args: [Result<LhsValue<'static>, Type>; 2] = [Err(ty), Err(ty)];
    let mut it = args.into_iter();
    let got = concat_impl(&mut it);
    assert!(got.is_none(), "absent if all arguments are absent");
    kani::cover!(true);
    std::mem::forget(got);
}

/// NOT REGISTERED: no result in 400 s.
/// Smallest shape with an absent argument BETWEEN present ones: {x}, absent, {y}
/// must give {x, y}.
#[kani::proof]
#[kani::stub(std::mem::drop, crate::lhs_types::verif_kani::common::mem_drop__releases_nothing_observable)]
#[kani::unwind(3)]
fn concat_arrays__absent_between_present() {
    let x: i64 = kani::any();
    let y: i64 = kani::any();
    let ty = Type::Array(Type::Int.into());
    let args: [Result<LhsValue<'static>, Type>; 3] = [Ok(LhsValue::Array(one(x))), Err(ty), Ok(LhsValue::Array(one(y)))];
    let mut it = args.into_iter();
    let got = concat_impl(&mut it);
    match &got {
        Some(LhsValue::Array(arr)) => {
            assert!(arr.len() == 2, "every present argument contributes");
            expect_elem(arr, 0, x);
            expect_elem(arr, 1, y);
        }
        _ => {
            assert!(false, "present array arguments give an array result");
        }
    }
    kani::cover!(true);
    std::mem::forget(got);
    std::mem::forget(it);
}

/// NOT REGISTERED: no result in 500 s (cadical and minisat).
/// Two one-byte Bytes arguments, each present or a typed absence.
#[kani::proof]
#[kani::stub(std::mem::drop, crate::lhs_types::verif_kani::common::mem_drop__releases_nothing_observable)]
#[kani::solver(minisat)]
#[kani::unwind(3)]
fn concat_bytes__two_args_present_in_order() {
    let a: [u8; 1] = kani::any();
    let b: [u8; 1] = kani::any();
    let pa: bool = kani::any();
    let pb: bool = kani::any();
    let args: [Result<LhsValue<'_>, Type>; 2] = [
        if pa { Ok(LhsValue::Bytes(Bytes::Borrowed(&a[..]))) } else { Err(Type::Bytes) },
        if pb { Ok(LhsValue::Bytes(Bytes::Borrowed(&b[..]))) } else { Err(Type::Bytes) },
    ];
    let mut it = args.into_iter();
    let got = concat_impl(&mut it);
    match &got {
        Some(LhsValue::Bytes(r)) => {
            assert!(pa || pb, "absent if all arguments are absent");
            if pa && pb {
                assert!(r.len() == 2 && r[0] == a[0] && r[1] == b[0], "present arguments joined in order");
            } else if pa {
                assert!(r.len() == 1 && r[0] == a[0], "exactly the present argument");
            } else {
                assert!(r.len() == 1 && r[0] == b[0], "exactly the present argument");
            }
        }
        None => {
            assert!(!pa && !pb, "present arguments give a present result");
        }
        Some(_) => {
            assert!(false, "bytes arguments give a bytes result");
        }
    }
    kani::cover!(pa && pb);
    kani::cover!(!pa && pb, "leading absence");
    kani::cover!(!pa && !pb, "all absent");
    std::mem::forget(got);
    std::mem::forget(it);
}
