//! C03 obligations: optional-parameter defaults are chained after the supplied
//! arguments (ExactSizeChain + SimpleFunctionDefinition::compile), and
//! check_param applies arity index / kind / type rules.
use super::super::*;
use crate::types::{LhsValue, RhsValue, Type};

/// K1: ExactSizeChain yields a's items then b's, and len() is the number of
/// remaining items at every step.
fn chain<const A: usize, const B: usize>() {
    let xs: [u8; A] = kani::any();
    let ys: [u8; B] = kani::any();
    let mut it = ExactSizeChain::new(xs.into_iter(), ys.into_iter());
    let mut k = 0;
    while k < A + B {
        assert!(it.len() == A + B - k, "len() is the number of remaining items");
        let want = if k < A { xs[k] } else { ys[k - A] };
        assert!(it.next() == Some(want), "first iterator's items, then the second's, in order");
        k += 1;
    }
    assert!(it.len() == 0 && it.next().is_none());
}

#[kani::proof]
#[kani::unwind(6)]
fn exact_size_chain__order_and_len_2_2() {
    chain::<2, 2>()
}

#[kani::proof]
#[kani::unwind(5)]
fn exact_size_chain__order_and_len_0_2() {
    chain::<0, 2>()
}

#[kani::proof]
#[kani::unwind(5)]
fn exact_size_chain__order_and_len_2_0() {
    chain::<2, 0>()
}

/// Implementation that reports its arguments: packs (count, a0, a1, a2) of the
/// Int arguments it receives (an absent argument counts as -1).
fn report<'a>(args: FunctionArgs<'_, 'a>) -> Option<LhsValue<'a>> {
    let n = args.len() as i64;
    let mut acc: i64 = n;
    let mut k = 0;
    while k < 3 {
        let v = match args.next() {
            Some(Ok(LhsValue::Int(i))) => i,
            Some(_) => -1,
            None => -2,
        };
        acc = acc * 10 + v;
        k += 1;
    }
    Some(LhsValue::Int(acc))
}

fn definition() -> SimpleFunctionDefinition {
    SimpleFunctionDefinition {
        params: vec![SimpleFunctionParam { arg_kind: SimpleFunctionArgKind::Field, val_type: Type::Int }],
        opt_params: vec![
            SimpleFunctionOptParam { arg_kind: SimpleFunctionArgKind::Literal, default_value: LhsValue::Int(7) },
            SimpleFunctionOptParam { arg_kind: SimpleFunctionArgKind::Both, default_value: LhsValue::Int(8) },
        ],
        return_type: Type::Int,
        implementation: SimpleFunctionImpl::new(report),
    }
}

/// K2: with 1 mandatory + 2 optional parameters, calling the compiled function
/// with P supplied arguments delivers exactly supplied ++ defaults[P-1..], in
/// order, and the internal arity assertion never fires.
fn defaults<const P: usize>() {
    let def = definition();
    assert!(def.arg_count() == (1, Some(2)));
    let ptypes = [Type::Int; P];
    let f = def.compile(&mut ptypes.iter().map(|t| FunctionParam::Variable(*t)), None);
    let xs: [i64; P] = kani::any();
    let mut i = 0;
    while i < P {
        kani::assume(xs[i] >= 0 && xs[i] <= 6);
        i += 1;
    }
    let mut supplied = xs.iter().map(|x| Ok(LhsValue::Int(*x)));
    let got = f(&mut supplied);
    let a0 = xs[0];
    let a1 = if P > 1 { xs[1] } else { 7 };
    let a2 = if P > 2 { xs[2] } else { 8 };
    let want = ((3 * 10 + a0) * 10 + a1) * 10 + a2;
    assert!(matches!(got, Some(LhsValue::Int(v)) if v == want), "omitted optional parameters are replaced by their declared defaults, in order");
    std::mem::forget(f);
    std::mem::forget(def);
}

#[kani::proof]
#[kani::unwind(6)]
fn simple_function_compile__defaults_p1() {
    defaults::<1>()
}

#[kani::proof]
#[kani::unwind(6)]
fn simple_function_compile__defaults_p2() {
    defaults::<2>()
}

#[kani::proof]
#[kani::unwind(6)]
fn simple_function_compile__defaults_p3() {
    defaults::<3>()
}

/// K3: check_param - kind (Literal / Field / Both) and type rules for the
/// parameter at the position given by the number of already-checked params.
#[kani::proof]
#[kani::unwind(6)]
fn simple_function_check_param__kind_and_type_rules() {
    let def = definition();
    let settings = ParserSettings::default();
    let pos: usize = kani::any();
    kani::assume(pos < 3);
    let lit = RhsValue::Int(1);
    let is_literal: bool = kani::any();
    let wrong_type: bool = kani::any();
    let blit = RhsValue::Bool(true);
    let next = if is_literal {
        FunctionParam::Constant(if wrong_type { &blit } else { &lit })
    } else {
        FunctionParam::Variable(if wrong_type { Type::Bool } else { Type::Int })
    };
    let prev = [Type::Int; 3];
    let r = def.check_param(&settings, &mut prev[..pos].iter().map(|t| FunctionParam::Variable(*t)), &next, None);
    let kind_ok = match pos {
        0 => !is_literal, // Field
        1 => is_literal,  // Literal
        _ => true,        // Both
    };
    match r {
        Ok(()) => {
            assert!(kind_ok && !wrong_type, "argument kind and type must match the declaration");
        }
        Err(FunctionParamError::KindMismatch(e)) => {
            assert!(!kind_ok, "kind mismatch only when the kind is wrong");
            std::mem::forget(e);
        }
        Err(FunctionParamError::TypeMismatch(e)) => {
            assert!(kind_ok && wrong_type, "type mismatch only when the type is wrong");
            std::mem::forget(e);
        }
        Err(e) => {
            std::mem::forget(e);
            assert!(false);
        }
    }
    std::mem::forget(def);
}
