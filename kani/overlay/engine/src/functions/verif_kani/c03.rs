//! C03 obligations: the implementation of a simple function is invoked with
//! exactly the supplied arguments followed by the declared defaults of the OMITTED
//! (trailing) optional parameters, a typed absence is passed through
//! (`ExactSizeChain` + `SimpleFunctionDefinition::compile`); `check_param`
//! applies the declared kind rules; the per-call context object is reachable
//! through every accessor of `FunctionDefinitionContext`.
use super::super::*;
use crate::types::{LhsValue, RhsValue, Type};

/// K1: ExactSizeChain yields a's items then b's, and len() is the number of
/// remaining items at every step.
fn chain<const A: usize, const B: usize>() {
    let xs: [u8; A] = kani::any();
    let ys: [u8; B] = kani::any();
    let mut it = ExactSizeChain::new(xs.into_iter(), ys.into_iter());
    let mut k = 0;
    while k < A + B {
        assert!(it.len() == A + B - k, "len() is the number of remaining items");
        let want = if k < A { xs[k] } else { ys[k - A] };
        assert!(it.next() == Some(want), "first iterator's items, then the second's, in order");
        k += 1;
    }
    assert!(it.len() == 0, "nothing remains");
    assert!(it.next().is_none(), "nothing beyond the items");
    kani::cover!(true);
}

#[kani::proof]
#[kani::unwind(6)]
fn exact_size_chain__order_and_len_2_2() {
    chain::<2, 2>()
}

#[kani::proof]
#[kani::unwind(5)]
fn exact_size_chain__order_and_len_0_2() {
    chain::<0, 2>()
}

#[kani::proof]
#[kani::unwind(5)]
fn exact_size_chain__order_and_len_2_0() {
    chain::<2, 0>()
}

#[kani::proof]
#[kani::unwind(5)]
fn exact_size_chain__order_and_len_1_2() {
    chain::<1, 2>()
}

// What the harness implementation observed (plain values only - trap 3).
static mut SEEN_LEN: usize = 0;
static mut SEEN_N: usize = 0;
static mut SEEN_VAL: [i64; 4] = [0; 4];
/// 0 = present Int, 1 = typed absence Err(Type::Int), 2 = anything else
static mut SEEN_KIND: [u8; 4] = [9; 4];

/// Implementation that records its arguments.
fn report<'a>(args: FunctionArgs<'_, 'a>) -> Option<LhsValue<'a>> {
    unsafe {
        SEEN_LEN = args.len();
        let mut k = 0;
        while k < 3 {
            let a = args.next();
            let done = a.is_none();
            match &a {
                Some(Ok(LhsValue::Int(i))) => {
                    SEEN_VAL[k] = *i;
                    SEEN_KIND[k] = 0;
                }
                Some(Err(Type::Int)) => {
                    SEEN_KIND[k] = 1;
                }
                Some(_) => {
                    SEEN_KIND[k] = 2;
                }
                None => {}
            }
            // the drop of an argument is not part of the contract
            std::mem::forget(a);
            if done {
                break;
            }
            k += 1;
        }
        SEEN_N = k;
        if k == 3 {
            // nothing beyond the declared parameters
            let extra = args.next();
            if extra.is_some() {
                SEEN_N = 4;
            }
            std::mem::forget(extra);
        }
    }
    Some(LhsValue::Int(1))
}

const DEFAULT_1: i64 = 7;
const DEFAULT_2: i64 = 8;

fn definition(with_optionals: bool) -> SimpleFunctionDefinition {
    let mut params = Vec::with_capacity(1);
    params.push(SimpleFunctionParam { arg_kind: SimpleFunctionArgKind::Field, val_type: Type::Int });
    let mut opt_params = Vec::with_capacity(2);
    if with_optionals {
        opt_params.push(SimpleFunctionOptParam {
            arg_kind: SimpleFunctionArgKind::Literal,
            default_value: LhsValue::Int(DEFAULT_1),
        });
        opt_params.push(SimpleFunctionOptParam {
            arg_kind: SimpleFunctionArgKind::Both,
            default_value: LhsValue::Int(DEFAULT_2),
        });
    }
    SimpleFunctionDefinition {
        params,
        opt_params,
        return_type: Type::Int,
        implementation: SimpleFunctionImpl::new(report),
    }
}

/// K2: 1 mandatory + 2 optional parameters (defaults 7 and 8). Calling the
/// compiled function with P supplied arguments (each present or a typed absence)
/// delivers exactly supplied ++ defaults[P-1..] in order; the arity assertion of
/// the compiled closure never fires.
fn defaults<const P: usize, const OPT: bool>() {
    let def = definition(OPT);
    assert!(def.arg_count() == (1, Some(if OPT { 2 } else { 0 })));
    let ptypes = [Type::Int; P];
    let f = def.compile(&mut ptypes.iter().map(|t| FunctionParam::Variable(*t)), None);
    let xs: [i64; P] = kani::any();
    let absent: [bool; P] = kani::any();
    let supplied: [CompiledValueResult<'static>; P] =
        std::array::from_fn(|i| if absent[i] { Err(Type::Int) } else { Ok(LhsValue::Int(xs[i])) });
    let mut supplied = supplied.into_iter();
    let got = f(&mut supplied);
    assert!(matches!(&got, Some(LhsValue::Int(1))), "the implementation's result is the call's result");
    std::mem::forget(got);
    std::mem::forget(supplied);
    let total = if OPT { 3 } else { 1 };
    unsafe {
        assert!(SEEN_LEN == total, "the implementation sees mandatory + optional parameters");
        assert!(SEEN_N == total, "exactly that many arguments are delivered");
        let mut k = 0;
        while k < P {
            if absent[k] {
                assert!(SEEN_KIND[k] == 1, "an argument without a value is passed as a typed absence");
            } else {
                assert!(SEEN_KIND[k] == 0 && SEEN_VAL[k] == xs[k], "supplied arguments in source order");
            }
            k += 1;
        }
        if OPT && P < 2 {
            assert!(SEEN_KIND[1] == 0 && SEEN_VAL[1] == DEFAULT_1, "omitted optional parameter 1 gets its declared default");
        }
        if OPT && P < 3 {
            assert!(SEEN_KIND[2] == 0 && SEEN_VAL[2] == DEFAULT_2, "omitted optional parameter 2 gets its declared default");
        }
    }
    kani::cover!(absent[0], "first argument is a typed absence");
    kani::cover!(!absent[0]);
    std::mem::forget(f);
    std::mem::forget(def);
}

// NOT REGISTERED (defaults_p1, defaults_p2): no result in 500 s, with or without the two contract stubs; the
// default-chaining clause is carried by simple_function_compile__two_optionals_one_supplied below.
#[kani::proof]
#[kani::stub(std::mem::drop, crate::lhs_types::verif_kani::common::mem_drop__releases_nothing_observable)]
#[kani::stub(<crate::types::LhsValue as std::clone::Clone>::clone, lhs_value_clone__contract_scalar)]
#[kani::unwind(4)]
fn simple_function_compile__defaults_p1() {
    defaults::<1, true>()
}

#[kani::proof]
#[kani::stub(std::mem::drop, crate::lhs_types::verif_kani::common::mem_drop__releases_nothing_observable)]
#[kani::stub(<crate::types::LhsValue as std::clone::Clone>::clone, lhs_value_clone__contract_scalar)]
#[kani::unwind(4)]
fn simple_function_compile__defaults_p2() {
    defaults::<2, true>()
}

#[kani::proof]
#[kani::unwind(4)]
fn simple_function_compile__defaults_p3() {
    defaults::<3, true>()
}

#[kani::proof]
#[kani::unwind(4)]
fn simple_function_compile__no_optionals_p1() {
    defaults::<1, false>()
}

/// K3: check_param on a WELL-TYPED argument at position `POS` (given by the number
/// of already-checked params): accepted iff its kind (literal / field) is allowed by
/// the declaration (pos 0: Field, 1: Literal, 2: Both); a refusal is a KindMismatch.
fn check_param_kind<const POS: usize>() {
    let def = definition(true);
    let settings = ParserSettings::default();
    let lit = RhsValue::Int(kani::any());
    let is_literal: bool = kani::any();
    let next = if is_literal { FunctionParam::Constant(&lit) } else { FunctionParam::Variable(Type::Int) };
    let prev = [Type::Int; POS];
    let r = def.check_param(&settings, &mut prev.iter().map(|t| FunctionParam::Variable(*t)), &next, None);
    let kind_ok = match POS {
        0 => !is_literal,
        1 => is_literal,
        _ => true,
    };
    match r {
        Ok(()) => {
            assert!(kind_ok, "an argument of the wrong kind is refused");
        }
        Err(FunctionParamError::KindMismatch(e)) => {
            assert!(!kind_ok, "an argument of the declared kind and type is accepted");
            let want = if is_literal { FunctionArgKind::Field } else { FunctionArgKind::Literal };
            assert!(e.expected == want && e.actual != want);
        }
        Err(e) => {
            std::mem::forget(e);
            assert!(false, "a well-typed argument is never a type error");
        }
    }
    kani::cover!(is_literal, "a literal argument");
    kani::cover!(!is_literal, "a field argument");
    std::mem::forget(def);
    std::mem::forget(lit);
}

#[kani::proof]
#[kani::unwind(6)]
fn simple_function_check_param__kind_rules_pos0() {
    check_param_kind::<0>()
}

#[kani::proof]
#[kani::unwind(6)]
fn simple_function_check_param__kind_rules_pos1() {
    check_param_kind::<1>()
}

#[kani::proof]
#[kani::unwind(6)]
fn simple_function_check_param__kind_rules_pos2() {
    check_param_kind::<2>()
}

/// The per-call context object: `as_any_ref`, `as_any_mut`, `downcast_ref`,
/// `downcast_mut`, `clone`, `into_any` and `downcast` all reach the SAME stored object.
#[kani::proof]
#[kani::unwind(3)]
fn definition_context__every_accessor_reaches_the_object() {
    let v: u8 = kani::any();
    let w: u8 = kani::any();
    let mut ctx = FunctionDefinitionContext::new(v);
    assert!(ctx.as_any_ref().downcast_ref::<u8>() == Some(&v), "as_any_ref reaches the object");
    assert!(ctx.downcast_ref::<u8>() == Some(&v), "downcast_ref reaches the object");
    assert!(ctx.downcast_ref::<u16>().is_none(), "no other type");
    match ctx.downcast_mut::<u8>() {
        Some(x) => {
            *x = w;
        }
        None => {
            assert!(false, "downcast_mut reaches the object");
        }
    }
    assert!(ctx.downcast_ref::<u8>() == Some(&w), "a write through downcast_mut is the same object's");
    match ctx.as_any_mut().downcast_mut::<u8>() {
        Some(x) => {
            assert!(*x == w, "as_any_mut reaches the stored object");
            *x = w ^ 1;
        }
        None => {
            assert!(false, "as_any_mut reaches the stored object");
        }
    }
    let w = w ^ 1;
    assert!(ctx.as_any_ref().downcast_ref::<u8>() == Some(&w), "a write through as_any_mut is seen through as_any_ref");
    let copy = ctx.clone();
    assert!(copy.downcast_ref::<u8>() == Some(&w), "clone carries the object");
    match copy.into_any().downcast::<u8>() {
        Ok(b) => {
            assert!(*b == w, "into_any gives the object");
        }
        Err(e) => {
            std::mem::forget(e);
            assert!(false, "into_any gives the object");
        }
    }
    match ctx.downcast::<u8>() {
        Ok(b) => {
            assert!(*b == w, "downcast gives the object");
        }
        Err(e) => {
            std::mem::forget(e);
            assert!(false, "downcast gives the object");
        }
    }
    kani::cover!(v != w);
}

/// `as_any_mut` on its own (what `check_param(.., ctx.as_mut())` implementations
/// use to update the per-call object).
#[kani::proof]
#[kani::unwind(3)]
fn definition_context__as_any_mut_reaches_the_object() {
    let v: u8 = kani::any();
    let w: u8 = kani::any();
    let mut ctx = FunctionDefinitionContext::new(v);
    match ctx.as_any_mut().downcast_mut::<u8>() {
        Some(x) => {
            assert!(*x == v, "as_any_mut reaches the stored object");
            *x = w;
        }
        None => {
            assert!(false, "as_any_mut reaches the stored object");
        }
    }
    assert!(ctx.downcast_ref::<u8>() == Some(&w), "the object written through as_any_mut is the one read back");
    kani::cover!(v != w);
    std::mem::forget(ctx);
}

/// Smallest shape that separates "defaults of the omitted TRAILING optional
/// parameters" from any other choice: no mandatory parameter, two optional ones
/// (defaults 7 and 8), ONE argument supplied: the implementation must see
/// (supplied, 8).
/// Contract stub for the derived `<LhsValue as Clone>::clone`, used by the
/// default-value obligations only: "clone returns a value equal to the original",
/// implemented for the scalar kinds; the obligations' bound is "default values of
/// kind Int" (CBMC does not fold the variant tag of a moved `LhsValue`, so the real
/// derived clone explores the recursive BTreeMap / Vec clone of kinds that are not
/// there: no result in 400 s).
pub(crate) fn lhs_value_clone__contract_scalar<'a>(v: &LhsValue<'a>) -> LhsValue<'a>
where
    'a: 'a,
{
    match v {
        LhsValue::Int(i) => LhsValue::Int(*i),
        LhsValue::Bool(b) => LhsValue::Bool(*b),
        LhsValue::Ip(ip) => LhsValue::Ip(*ip),
        _ => {
            // outside the bound of these obligations (compound / bytes defaults)
            kani::assume(false);
            unreachable!()
        }
    }
}

#[kani::proof]
#[kani::stub(std::mem::drop, crate::lhs_types::verif_kani::common::mem_drop__releases_nothing_observable)]
#[kani::stub(<crate::types::LhsValue as std::clone::Clone>::clone, lhs_value_clone__contract_scalar)]
#[kani::unwind(3)]
fn simple_function_compile__two_optionals_one_supplied() {
    let mut opt_params = Vec::with_capacity(2);
    opt_params.push(SimpleFunctionOptParam { arg_kind: SimpleFunctionArgKind::Both, default_value: LhsValue::Int(DEFAULT_1) });
    opt_params.push(SimpleFunctionOptParam { arg_kind: SimpleFunctionArgKind::Both, default_value: LhsValue::Int(DEFAULT_2) });
    let def = SimpleFunctionDefinition {
        params: Vec::new(),
        opt_params,
        return_type: Type::Int,
        implementation: SimpleFunctionImpl::new(report2),
    };
    let ptypes = [Type::Int; 1];
    let f = def.compile(&mut ptypes.iter().map(|t| FunctionParam::Variable(*t)), None);
    let x: i64 = kani::any();
    let supplied: [CompiledValueResult<'static>; 1] = [Ok(LhsValue::Int(x))];
    let mut supplied = supplied.into_iter();
    let got = f(&mut supplied);
    std::mem::forget(got);
    std::mem::forget(supplied);
    unsafe {
        assert!(SEEN_LEN == 2 && SEEN_N == 2, "both parameters reach the implementation");
        assert!(SEEN_KIND[0] == 0 && SEEN_VAL[0] == x, "the supplied argument comes first");
        assert!(SEEN_KIND[1] == 0 && SEEN_VAL[1] == DEFAULT_2, "the omitted (second) optional parameter gets ITS declared default");
    }
    kani::cover!(true);
    std::mem::forget(f);
    std::mem::forget(def);
}

/// Two-argument variant of `report`.
fn report2<'a>(args: FunctionArgs<'_, 'a>) -> Option<LhsValue<'a>> {
    unsafe {
        SEEN_LEN = args.len();
        let mut k = 0;
        while k < 2 {
            let a = args.next();
            let done = a.is_none();
            match &a {
                Some(Ok(LhsValue::Int(i))) => {
                    SEEN_VAL[k] = *i;
                    SEEN_KIND[k] = 0;
                }
                Some(Err(Type::Int)) => {
                    SEEN_KIND[k] = 1;
                }
                Some(_) => {
                    SEEN_KIND[k] = 2;
                }
                None => {}
            }
            std::mem::forget(a);
            if done {
                break;
            }
            k += 1;
        }
        SEEN_N = k;
    }
    None
}
