//! C03 obligations: `Array::filter_map_to` (per-element application of a function
//! whose first argument uses [*]): the function is applied exactly once per
//! element, in element order; the results that are present are kept in order,
//! absent results are dropped; the result has the declared element type.
use super::super::*;
use super::common::{array_borrowed, array_owned};
use std::cell::Cell;

fn filter_map<const N: usize, const BORROWED: bool>() {
    let keep: [bool; N] = kani::any();
    kani::cover!(N > 1 && !keep[0] && keep[N - 1], "a non-trailing element is dropped");
    kani::cover!(N > 0 && keep[0], "first element kept");
    filter_map_keep::<N, BORROWED>(keep)
}

fn filter_map_keep<const N: usize, const BORROWED: bool>(keep: [bool; N]) {
    let xs: [i64; N] = kani::any();
    let ys: [i64; N] = kani::any();
    let vals: [LhsValue<'static>; N] = std::array::from_fn(|i| LhsValue::Int(xs[i]));
    let src = if BORROWED {
        array_borrowed(Type::Int, &vals[..])
    } else {
        let mut v = Vec::with_capacity(N);
        let mut i = 0;
        while i < N {
            v.push(LhsValue::Int(xs[i]));
            i += 1;
        }
        array_owned(Type::Int, v)
    };
    // the k-th call must receive element k; it answers ys[k] or "absent"
    let calls = Cell::new(0usize);
    let in_order = Cell::new(true);
    let f = |val: LhsValue<'_>| -> Option<LhsValue<'_>> {
        let k = calls.get();
        calls.set(k + 1);
        let ok = k < N && matches!(val, LhsValue::Int(x) if x == xs[k]);
        if !ok {
            in_order.set(false);
        }
        std::mem::forget(val);
        if k < N && keep[k] { Some(LhsValue::Int(ys[k])) } else { None }
    };
    let out = src.filter_map_to(Type::Int, f);
    assert!(calls.get() == N, "the function is applied exactly once per element");
    assert!(in_order.get(), "the k-th application receives element k");
    assert!(out.value_type() == Type::Int, "the result has the declared element type");
    let mut w = 0;
    let mut i = 0;
    while i < N {
        if keep[i] {
            match out.get(w) {
                Some(LhsValue::Int(v)) => {
                    assert!(*v == ys[i], "kept results appear in element order");
                }
                _ => {
                    assert!(false, "every present result is kept");
                }
            }
            w += 1;
        }
        i += 1;
    }
    assert!(out.len() == w, "elements whose result is absent are dropped, nothing else");
    kani::cover!(w == N || w < N, "result inspected");
    std::mem::forget(out);
    std::mem::forget(vals);
}

// NOT REGISTERED (owned_n2 with a symbolic keep pattern, owned_n3): no result in 500 s; the four constant keep
// patterns of an owned 2-element array are registered instead (end of the file).
#[kani::proof]
#[kani::stub(std::mem::drop, crate::lhs_types::verif_kani::common::mem_drop__releases_nothing_observable)]
#[kani::solver(minisat)]
#[kani::unwind(3)]
fn array_filter_map_to__owned_n2() {
    filter_map::<2, false>()
}

#[kani::proof]
#[kani::unwind(3)]
fn array_filter_map_to__borrowed_n2() {
    filter_map::<2, true>()
}

#[kani::proof]
#[kani::stub(std::mem::drop, crate::lhs_types::verif_kani::common::mem_drop__releases_nothing_observable)]
#[kani::unwind(4)]
fn array_filter_map_to__owned_n3() {
    filter_map::<3, false>()
}

#[kani::proof]
#[kani::unwind(4)]
fn array_filter_map_to__borrowed_n3() {
    filter_map::<3, true>()
}

#[kani::proof]
#[kani::unwind(2)]
fn array_filter_map_to__owned_n0() {
    filter_map::<0, false>()
}

/// Owned array, the FIRST of two elements is dropped (constant keep pattern).
#[kani::proof]
#[kani::stub(std::mem::drop, crate::lhs_types::verif_kani::common::mem_drop__releases_nothing_observable)]
#[kani::unwind(3)]
fn array_filter_map_to__owned_n2_first_dropped() {
    filter_map_keep::<2, false>([false, true])
}

#[kani::proof]
#[kani::stub(std::mem::drop, crate::lhs_types::verif_kani::common::mem_drop__releases_nothing_observable)]
#[kani::unwind(3)]
fn array_filter_map_to__owned_n2_second_dropped() {
    filter_map_keep::<2, false>([true, false])
}

#[kani::proof]
#[kani::stub(std::mem::drop, crate::lhs_types::verif_kani::common::mem_drop__releases_nothing_observable)]
#[kani::unwind(3)]
fn array_filter_map_to__owned_n2_both_kept() {
    filter_map_keep::<2, false>([true, true])
}

#[kani::proof]
#[kani::stub(std::mem::drop, crate::lhs_types::verif_kani::common::mem_drop__releases_nothing_observable)]
#[kani::unwind(3)]
fn array_filter_map_to__owned_n2_both_dropped() {
    filter_map_keep::<2, false>([false, false])
}
