//! C03 obligations: `Array::filter_map_to` (per-element function application
//! for [*] calls): kept results in order, absent results dropped, declared
//! element type.
use super::super::*;

fn filter_map<const N: usize, const BORROWED: bool>() {
    let xs: [i64; N] = kani::any();
    let keep: [bool; N] = kani::any();
    let mut v = Vec::with_capacity(N);
    let mut i = 0;
    while i < N {
        kani::assume(xs[i] != i64::MAX);
        v.push(LhsValue::Int(xs[i]));
        i += 1;
    }
    let src = Array::try_from_vec(Type::Int, v).unwrap();
    // f keeps element x iff keep[position of x]; positions are recovered from a side table
    let table = xs;
    let f = move |val: LhsValue<'_>| -> Option<LhsValue<'_>> {
        match val {
            LhsValue::Int(x) => {
                let mut k = 0;
                let mut kept = false;
                while k < N {
                    if table[k] == x && keep[k] {
                        kept = true;
                    }
                    k += 1;
                }
                if kept { Some(LhsValue::Int(x + 1)) } else { None }
            }
            _ => None,
        }
    };
    // make "x is kept" a function of the value so that duplicates are consistent
    let mut i = 0;
    while i < N {
        let mut j = 0;
        while j < N {
            if xs[i] == xs[j] {
                kani::assume(keep[i] == keep[j]);
            }
            j += 1;
        }
        i += 1;
    }
    let out = if BORROWED { src.as_ref().filter_map_to(Type::Int, f) } else { src.clone().filter_map_to(Type::Int, f) };
    assert!(out.value_type() == Type::Int, "the result has the declared element type");
    let mut w = 0;
    let mut i = 0;
    while i < N {
        if keep[i] {
            assert!(matches!(out.get(w), Some(LhsValue::Int(v)) if *v == xs[i] + 1), "kept results appear in element order");
            w += 1;
        }
        i += 1;
    }
    assert!(out.len() == w, "elements whose result is absent are dropped, nothing else");
    kani::cover!(N > 1 && w == 1);
    std::mem::forget(out);
    std::mem::forget(src);
}

#[kani::proof]
#[kani::unwind(6)]
fn array_filter_map_to__owned_n2() {
    filter_map::<2, false>()
}

#[kani::proof]
#[kani::unwind(6)]
fn array_filter_map_to__borrowed_n2() {
    filter_map::<2, true>()
}

#[kani::proof]
#[kani::unwind(7)]
fn array_filter_map_to__owned_n3() {
    filter_map::<3, false>()
}
