//! C08 obligations on engine/src/lhs_types/array.rs: arrays can only be built
//! homogeneous.  `Array::try_from_vec` / `Array::try_from_iter` are `Ok` exactly
//! when every element's full type equals the declared element type; the typed
//! wrapper and `FromIterator` produce the type they declare.
//! Element kinds are constants of each obligation (const generics), leaves are
//! symbolic; sizes 0..2 (the loop body is the same for every element; mostly ONE element, see below).
use super::super::*;
use super::common::array_owned;
use crate::lhs_types::{Bytes, Map};

/// Pool: 0 Int, 1 Bytes, 2 Array(Int), 3 Array(Bytes), 4 Array(Array(Int)),
/// 5 Map(Int), 6 Bool.
fn ty<const K: usize>() -> Type {
    match K {
        0 => Type::Int,
        1 => Type::Bytes,
        2 => Type::Array(Type::Int.into()),
        3 => Type::Array(Type::Bytes.into()),
        4 => Type::Array(Type::Array(Type::Int.into()).into()),
        5 => Type::Map(Type::Int.into()),
        _ => Type::Bool,
    }
}

fn elem<const K: usize>(x: i64) -> LhsValue<'static> {
    match K {
        0 => LhsValue::Int(x),
        1 => LhsValue::Bytes(Bytes::Owned(Box::new([x as u8]))),
        2 => LhsValue::Array(array_owned(Type::Int, vec![LhsValue::Int(x)])),
        3 => LhsValue::Array(array_owned(Type::Bytes, Vec::new())),
        4 => LhsValue::Array(array_owned(Type::Array(Type::Int.into()), Vec::new())),
        5 => LhsValue::Map(Map::new(Type::Int)),
        _ => LhsValue::Bool(x > 0),
    }
}

fn is_elem<const K: usize>(v: &LhsValue<'_>, x: i64) -> bool {
    if v.get_type() != ty::<K>() {
        return false;
    }
    match K {
        0 => matches!(v, LhsValue::Int(y) if *y == x),
        1 => matches!(v, LhsValue::Bytes(b) if b.len() == 1 && b[0] == x as u8),
        2 => matches!(v, LhsValue::Array(a) if a.len() == 1 && matches!(a.get(0), Some(LhsValue::Int(y)) if *y == x)),
        6 => matches!(v, LhsValue::Bool(b) if *b == (x > 0)),
        _ => true,
    }
}

/// The postcondition shared by both checked constructors for two elements of
/// kinds K0, K1 and declared element type DECL.
fn check2<const DECL: usize, const K0: usize, const K1: usize>(
    r: Result<Array<'static>, TypeMismatchError>,
    x0: i64,
    x1: i64,
) {
    let ok0 = ty::<K0>() == ty::<DECL>();
    let ok1 = ty::<K1>() == ty::<DECL>();
    match r {
        Ok(a) => {
            assert!(ok0 && ok1, "an array with an element of another type must be refused");
            assert!(a.value_type() == ty::<DECL>() && a.get_type() == Type::Array(ty::<DECL>().into()));
            assert!(a.len() == 2, "all elements are kept");
            match (a.get(0), a.get(1)) {
                (Some(e0), Some(e1)) => {
                    assert!(is_elem::<K0>(e0, x0) && is_elem::<K1>(e1, x1), "elements are kept in order");
                    assert!(e0.get_type() == ty::<DECL>() && e1.get_type() == ty::<DECL>(), "every element has the declared element type");
                }
                _ => {
                    assert!(false, "all elements are kept");
                }
            }
            assert!(a.get(2).is_none());
            std::mem::forget(a);
        }
        Err(e) => {
            assert!(!(ok0 && ok1), "a homogeneous array must be accepted");
            let first_bad = if !ok0 { ty::<K0>() } else { ty::<K1>() };
            assert!(e.actual == first_bad, "the error names the first offending element's type");
            std::mem::forget(e);
        }
    }
}

fn try_from_iter_2<const DECL: usize, const K0: usize, const K1: usize>() {
    let x0: i64 = kani::any();
    let x1: i64 = kani::any();
    let items = [elem::<K0>(x0), elem::<K1>(x1)];
    check2::<DECL, K0, K1>(Array::try_from_iter(ty::<DECL>(), items), x0, x1);
}

macro_rules! ctor_harness {
    ($($name:ident = $body:ident<$d:literal, $a:literal, $b:literal>;)*) => {
        $(
            #[kani::proof]
            #[kani::unwind(4)]
            #[kani::stub(<crate::types::ExpectedTypeList as std::convert::From<crate::types::Type>>::from, crate::types::verif_kani::c08::expected_type_list_from_type__contract)]
            fn $name() {
                $body::<$d, $a, $b>()
            }
        )*
    };
}

// Two elements: only the shapes whose error path drops an EMPTY vector finish (CBMC cannot fold the
// enum tags of elements stored in a heap vector, so dropping a non-empty Vec<LhsValue> explores the
// whole recursive drop glue: try_from_vec with 2 elements and try_from_iter failing at the second
// element did not finish in 300 s).  The per-element check is the same loop body; the one-element
// obligations below cover every (declared type, element kind) pair of the pool.
ctor_harness! {
    array_try_from_iter__int_decl_int_int = try_from_iter_2<0, 0, 0>;
    array_try_from_iter__int_decl_bytes_int = try_from_iter_2<0, 1, 0>;
}

/// The postcondition of both checked constructors for ONE element of kind K0.
fn check1<const DECL: usize, const K0: usize>(r: Result<Array<'static>, TypeMismatchError>, x0: i64) {
    let ok0 = ty::<K0>() == ty::<DECL>();
    let mut outcome = 0u8;
    match r {
        Ok(a) => {
            outcome = 1;
            assert!(ok0, "an array with an element of another type must be refused");
            assert!(a.value_type() == ty::<DECL>() && a.get_type() == Type::Array(ty::<DECL>().into()));
            assert!(a.len() == 1, "the element is kept");
            assert!(matches!(a.get(0), Some(e) if is_elem::<K0>(e, x0)), "the element is kept");
            assert!(a.get(1).is_none());
            std::mem::forget(a);
        }
        Err(e) => {
            outcome = 2;
            assert!(!ok0, "a homogeneous array must be accepted");
            assert!(e.actual == ty::<K0>(), "the error names the offending element's type");
            std::mem::forget(e);
        }
    }
    kani::cover!(outcome == (if K0 == DECL { 1 } else { 2 }));
}

fn try_from_vec_1<const DECL: usize, const K0: usize>() {
    let x0: i64 = kani::any();
    let v = vec![elem::<K0>(x0)];
    check1::<DECL, K0>(Array::try_from_vec(ty::<DECL>(), v), x0);
}

fn try_from_iter_1<const DECL: usize, const K0: usize>() {
    let x0: i64 = kani::any();
    let items = [elem::<K0>(x0)];
    check1::<DECL, K0>(Array::try_from_iter(ty::<DECL>(), items), x0);
}

macro_rules! ctor1_harness {
    ($($name:ident = $body:ident<$d:literal, $a:literal>;)*) => {
        $(
            #[kani::proof]
            #[kani::unwind(2)]
            #[kani::stub(<crate::types::ExpectedTypeList as std::convert::From<crate::types::Type>>::from, crate::types::verif_kani::c08::expected_type_list_from_type__contract)]
            fn $name() {
                $body::<$d, $a>()
            }
        )*
    };
}

ctor1_harness! {
    array_try_from_vec_1__int_decl_int_elem = try_from_vec_1<0, 0>;
    array_try_from_vec_1__int_decl_bytes_elem = try_from_vec_1<0, 1>;
    array_try_from_vec_1__int_decl_bool_elem = try_from_vec_1<0, 6>;
    array_try_from_vec_1__int_decl_array_int_elem = try_from_vec_1<0, 2>;
    array_try_from_vec_1__bytes_decl_bytes_elem = try_from_vec_1<1, 1>;
    array_try_from_vec_1__array_int_decl_array_int_elem = try_from_vec_1<2, 2>;
    array_try_from_vec_1__array_int_decl_array_bytes_elem = try_from_vec_1<2, 3>;
    array_try_from_vec_1__array_int_decl_array_array_int_elem = try_from_vec_1<2, 4>;
    array_try_from_vec_1__array_int_decl_map_int_elem = try_from_vec_1<2, 5>;
    array_try_from_vec_1__array_int_decl_int_elem = try_from_vec_1<2, 0>;
    array_try_from_iter_1__int_decl_int_elem = try_from_iter_1<0, 0>;
    array_try_from_iter_1__int_decl_bytes_elem = try_from_iter_1<0, 1>;
    array_try_from_iter_1__array_int_decl_array_int_elem = try_from_iter_1<2, 2>;
    array_try_from_iter_1__array_int_decl_array_bytes_elem = try_from_iter_1<2, 3>;
    array_try_from_iter_1__array_int_decl_array_array_int_elem = try_from_iter_1<2, 4>;
    array_try_from_iter_1__map_int_decl_map_int_elem = try_from_iter_1<5, 5>;
    array_try_from_iter_1__map_int_decl_array_int_elem = try_from_iter_1<5, 2>;
}

/// No elements: always Ok, of the declared type, for both constructors.
#[kani::proof]
#[kani::unwind(4)]
fn array_checked_ctors__empty_is_ok() {
    let r = Array::try_from_vec(ty::<2>(), Vec::new());
    match r {
        Ok(a) => {
            assert!(a.len() == 0 && a.is_empty() && a.get_type() == Type::Array(ty::<2>().into()));
            std::mem::forget(a);
        }
        Err(e) => {
            std::mem::forget(e);
            assert!(false);
        }
    }
    let none: [LhsValue<'static>; 0] = [];
    let r = Array::try_from_iter(Type::Bytes, none);
    match r {
        Ok(a) => {
            assert!(a.len() == 0 && a.value_type() == Type::Bytes);
            kani::cover!(true);
            std::mem::forget(a);
        }
        Err(e) => {
            std::mem::forget(e);
            assert!(false);
        }
    }
}

/// `Array::from_iter::<V>` / `TypedArray<V>` produce the TYPE `V` declares,
/// holding the converted elements.
#[kani::proof]
#[kani::unwind(5)]
fn typed_array__declared_type_is_produced_type() {
    let x: i64 = kani::any();
    let y: i64 = kani::any();
    let a: Array<'static> = [x, y].into_iter().collect();
    assert!(a.value_type() == Type::Int && a.get_type() == Type::Array(Type::Int.into()));
    assert!(a.len() == 2);
    assert!(matches!(a.get(0), Some(LhsValue::Int(v)) if *v == x));
    assert!(matches!(a.get(1), Some(LhsValue::Int(v)) if *v == y));
    std::mem::forget(a);

    let mut t: TypedArray<'static, bool> = TypedArray::new();
    let b: bool = kani::any();
    t.push(b);
    assert!(t.len() == 1);
    {
        let view = t.as_array();
        assert!(view.get_type() == <TypedArray<'static, bool> as IntoValue<'static>>::TYPE);
        assert!(view.get_type() == Type::Array(Type::Bool.into()));
        assert!(matches!(view.get(0), Some(LhsValue::Bool(v)) if *v == b));
        std::mem::forget(view);
    }
    let v = t.into_value();
    assert!(v.get_type() == Type::Array(Type::Bool.into()), "TypedArray<bool> is an Array<Bool> value");
    std::mem::forget(v);

    let nested: TypedArray<'static, TypedArray<'static, i64>> = TypedArray::default();
    let arr = Array::from(nested);
    assert!(arr.value_type() == Type::Array(Type::Int.into()));
    let nested: TypedArray<'static, TypedMap<'static, i64>> = TypedArray::default();
    let arr2 = Array::from(nested);
    assert!(arr2.value_type() == Type::Map(Type::Int.into()), "an array of typed maps has element type Map<Int>");
    kani::cover!(true);
    std::mem::forget(arr);
    std::mem::forget(arr2);
}
