//! C02 obligations, kernel K1: `Array::get(i)` / `Array::extract(i)` on both
//! representations (Owned vector / Borrowed slice): `[i]` yields exactly
//! element i when i < len and NO value otherwise (i == len, usize::MAX, ...).
//! Direct calls - no context, no closure. Pre-states are built with
//! `array_owned` / `array_borrowed` (no checked constructor, trap 2).
use super::super::*;
use super::common::{array_borrowed, array_owned};

fn ints<const N: usize>(xs: &[i64; N]) -> Vec<LhsValue<'static>> {
    let mut v = Vec::with_capacity(N);
    let mut i = 0;
    while i < N {
        v.push(LhsValue::Int(xs[i]));
        i += 1;
    }
    v
}

fn check_ref<const N: usize>(got: Option<&LhsValue<'_>>, xs: &[i64; N], idx: usize) {
    match got {
        Some(LhsValue::Int(v)) => {
            assert!(idx < N, "an out-of-range index yields no value");
            assert!(*v == xs[idx], "[i] yields exactly element i");
        }
        None => {
            assert!(idx >= N, "an in-range index yields a value");
        }
        Some(_) => {
            assert!(false, "the element keeps its kind");
        }
    }
}

fn check_val<const N: usize>(got: Option<LhsValue<'_>>, xs: &[i64; N], idx: usize) {
    match &got {
        Some(LhsValue::Int(v)) => {
            assert!(idx < N, "an out-of-range index yields no value");
            assert!(*v == xs[idx], "[i] yields exactly element i");
        }
        None => {
            assert!(idx >= N, "an in-range index yields a value");
        }
        Some(_) => {
            assert!(false, "the element keeps its kind");
        }
    }
    // the drop of the extracted value is not part of the contract
    std::mem::forget(got);
}

fn covers<const N: usize>(idx: usize) {
    kani::cover!(idx == N, "index == len");
    kani::cover!(idx == usize::MAX, "largest index");
    kani::cover!(idx < N, "index in range");
}

/// `Array::get` on an owned array of N symbolic ints, every usize index.
fn get_owned<const N: usize>() {
    let xs: [i64; N] = kani::any();
    let arr = array_owned(Type::Int, ints(&xs));
    let idx: usize = kani::any();
    assert!(arr.len() == N);
    check_ref(arr.get(idx), &xs, idx);
    covers::<N>(idx);
    std::mem::forget(arr);
}

/// `Array::get` on a borrowed array (slice of a fixed-size local array).
fn get_borrowed<const N: usize>() {
    let xs: [i64; N] = kani::any();
    let vals: [LhsValue<'static>; N] = std::array::from_fn(|i| LhsValue::Int(xs[i]));
    let arr = array_borrowed(Type::Int, &vals[..]);
    let idx: usize = kani::any();
    assert!(arr.len() == N);
    check_ref(arr.get(idx), &xs, idx);
    covers::<N>(idx);
    std::mem::forget(arr);
}

/// `Array::extract` (by value) on an owned array, OUT-OF-RANGE half of the index
/// domain (every idx >= len): no value.
fn extract_owned_out_of_range<const N: usize>() {
    let xs: [i64; N] = kani::any();
    let arr = array_owned(Type::Int, ints(&xs));
    let idx: usize = kani::any();
    kani::assume(idx >= N);
    check_val(arr.extract(idx), &xs, idx);
    kani::cover!(idx == N, "index == len");
    kani::cover!(idx == usize::MAX, "largest index");
}

/// `Array::extract` (by value) on an owned array, in-range index I (a constant of
/// the obligation: with a symbolic in-range index the drop of the REST of the
/// vector inside `extract` makes CBMC explore the BTreeMap drop glue of
/// `LhsValue::Map` for every slot - no result in 300 s).
fn extract_owned_at<const N: usize, const I: usize>() {
    let xs: [i64; N] = kani::any();
    let arr = array_owned(Type::Int, ints(&xs));
    check_val(arr.extract(I), &xs, I);
    kani::cover!(true);
}

/// `Array::extract` (by value) on a borrowed array.
fn extract_borrowed<const N: usize>() {
    let xs: [i64; N] = kani::any();
    let vals: [LhsValue<'static>; N] = std::array::from_fn(|i| LhsValue::Int(xs[i]));
    let arr = array_borrowed(Type::Int, &vals[..]);
    let idx: usize = kani::any();
    check_val(arr.extract(idx), &xs, idx);
    covers::<N>(idx);
}

macro_rules! sized {
    ($name:ident, $body:ident, $n:literal, $unwind:literal) => {
        #[kani::proof]
        #[kani::unwind($unwind)]
        fn $name() {
            $body::<$n>()
        }
    };
}

sized!(array_get__owned_n0, get_owned, 0, 3);
sized!(array_get__owned_n1, get_owned, 1, 4);
sized!(array_get__owned_n3, get_owned, 3, 6);
sized!(array_get__borrowed_n0, get_borrowed, 0, 3);
sized!(array_get__borrowed_n3, get_borrowed, 3, 6);
sized!(array_extract__owned_out_of_range_n0, extract_owned_out_of_range, 0, 3);
sized!(array_extract__owned_out_of_range_n1, extract_owned_out_of_range, 1, 2);
// n2 out of range: see the end of the file (needs the mem::drop contract stub)

macro_rules! at {
    ($name:ident, $n:literal, $i:literal, $unwind:literal) => {
        #[kani::proof]
        #[kani::unwind($unwind)]
        fn $name() {
            extract_owned_at::<$n, $i>()
        }
    };
}

at!(array_extract__owned_n1_at0, 1, 0, 2);
// n2 at 0 / at 1: see the end of the file (need the mem::drop contract stub; without it no result in 300 s)
sized!(array_extract__borrowed_n0, extract_borrowed, 0, 3);
sized!(array_extract__borrowed_n1, extract_borrowed, 1, 4);
sized!(array_extract__borrowed_n3, extract_borrowed, 3, 6);


// with the mem::drop contract stub (see lhs_types/verif_kani/common.rs)
#[kani::proof]
#[kani::stub(std::mem::drop, crate::lhs_types::verif_kani::common::mem_drop__releases_nothing_observable)]
#[kani::solver(minisat)]
#[kani::unwind(3)]
fn array_extract__owned_out_of_range_n2() {
    extract_owned_out_of_range::<2>()
}

#[kani::proof]
#[kani::stub(std::mem::drop, crate::lhs_types::verif_kani::common::mem_drop__releases_nothing_observable)]
#[kani::solver(minisat)]
#[kani::unwind(3)]
fn array_extract__owned_n2_at0() {
    extract_owned_at::<2, 0>()
}

#[kani::proof]
#[kani::stub(std::mem::drop, crate::lhs_types::verif_kani::common::mem_drop__releases_nothing_observable)]
#[kani::solver(minisat)]
#[kani::unwind(3)]
fn array_extract__owned_n2_at1() {
    extract_owned_at::<2, 1>()
}

// NOT REGISTERED: no result in 500 s (drop of a 3-element owned vector inside `extract`)
#[kani::proof]
#[kani::stub(std::mem::drop, crate::lhs_types::verif_kani::common::mem_drop__releases_nothing_observable)]
#[kani::solver(minisat)]
#[kani::unwind(4)]
fn array_extract__owned_out_of_range_n3() {
    extract_owned_out_of_range::<3>()
}

/// Boundary literals (regression obligations): index == len and the largest index on
/// an owned one-element array yield no value.
#[kani::proof]
#[kani::stub(std::mem::drop, crate::lhs_types::verif_kani::common::mem_drop__releases_nothing_observable)]
#[kani::solver(minisat)]
#[kani::unwind(2)]
fn array_extract__owned_n1_at_len() {
    extract_owned_at::<1, 1>()
}

#[kani::proof]
#[kani::stub(std::mem::drop, crate::lhs_types::verif_kani::common::mem_drop__releases_nothing_observable)]
#[kani::solver(minisat)]
#[kani::unwind(2)]
fn array_extract__owned_n1_at_max() {
    let xs: [i64; 1] = kani::any();
    let arr = array_owned(Type::Int, ints(&xs));
    check_val(arr.extract(usize::MAX), &xs, usize::MAX);
    kani::cover!(true);
}
