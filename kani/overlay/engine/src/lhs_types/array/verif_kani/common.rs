//! Harness support: build `Array` values directly (no element type check - the
//! checked constructors' error path builds a BTreeSet-backed `ExpectedTypeList`, which
//! is expensive under CBMC; the constructors themselves are verified in c08).
//! Constructs values only.
use super::super::*;

pub(crate) fn array_owned<'a>(ty: Type, data: Vec<LhsValue<'a>>) -> Array<'a> {
    Array {
        val_type: ty.into(),
        data: InnerArray::Owned(data),
    }
}

pub(crate) fn array_borrowed<'a>(ty: Type, data: &'a [LhsValue<'a>]) -> Array<'a> {
    Array {
        val_type: ty.into(),
        data: InnerArray::Borrowed(data),
    }
}
