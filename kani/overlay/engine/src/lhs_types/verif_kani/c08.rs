//! C08: the typed wrappers declare the type they produce (`IntoValue::TYPE`),
//! for every implementor; re-export of the map value-construction support.
use super::super::*;
pub(crate) use super::super::map::verif_kani::c08::{map_empty, map_is_borrowed};
use crate::types::{GetType, IntoValue, Type};
use std::net::{IpAddr, Ipv4Addr, Ipv6Addr};

fn t<'a, V: IntoValue<'a>>() -> Type {
    V::TYPE
}

/// `IntoValue::TYPE` of every implementor is the structural type of the values
/// it converts to.  Loop-free and complete: the constants are compile-time
/// values of the real trait impls.
#[kani::proof]
fn into_value_type_constants__declared_types() {
    // scalars
    assert!(t::<bool>() == Type::Bool);
    assert!(t::<i64>() == Type::Int);
    assert!(t::<i32>() == Type::Int);
    assert!(t::<i16>() == Type::Int);
    assert!(t::<u16>() == Type::Int);
    assert!(t::<i8>() == Type::Int);
    assert!(t::<u8>() == Type::Int);
    assert!(t::<IpAddr>() == Type::Ip);
    assert!(t::<Ipv4Addr>() == Type::Ip);
    assert!(t::<Ipv6Addr>() == Type::Ip);
    // everything convertible to Bytes
    assert!(t::<&'static [u8]>() == Type::Bytes);
    assert!(t::<&'static str>() == Type::Bytes);
    assert!(t::<Vec<u8>>() == Type::Bytes);
    assert!(t::<String>() == Type::Bytes);
    assert!(t::<Box<[u8]>>() == Type::Bytes);
    assert!(t::<Bytes<'static>>() == Type::Bytes);
    // one container layer
    assert!(t::<TypedArray<'static, i64>>() == Type::Array(Type::Int.into()), "TypedArray<i64> is Array<Int>");
    assert!(t::<TypedArray<'static, bool>>() == Type::Array(Type::Bool.into()));
    assert!(t::<TypedArray<'static, &'static str>>() == Type::Array(Type::Bytes.into()));
    assert!(t::<TypedArray<'static, IpAddr>>() == Type::Array(Type::Ip.into()));
    assert!(t::<TypedMap<'static, i64>>() == Type::Map(Type::Int.into()), "TypedMap<i64> is Map<Int>");
    assert!(t::<TypedMap<'static, bool>>() == Type::Map(Type::Bool.into()));
    assert!(t::<TypedMap<'static, &'static str>>() == Type::Map(Type::Bytes.into()));
    assert!(t::<TypedMap<'static, IpAddr>>() == Type::Map(Type::Ip.into()));
    // a map is never an array and vice versa
    assert!(t::<TypedMap<'static, i64>>() != Type::Array(Type::Int.into()));
    assert!(t::<TypedArray<'static, i64>>() != Type::Map(Type::Int.into()));
    // two layers, all four shapes
    assert!(
        t::<TypedArray<'static, TypedArray<'static, i64>>>() == Type::Array(Type::Array(Type::Int.into()).into())
    );
    assert!(
        t::<TypedArray<'static, TypedMap<'static, i64>>>() == Type::Array(Type::Map(Type::Int.into()).into()),
        "an array of typed maps is Array<Map<Int>>"
    );
    assert!(
        t::<TypedMap<'static, TypedArray<'static, i64>>>() == Type::Map(Type::Array(Type::Int.into()).into())
    );
    assert!(
        t::<TypedMap<'static, TypedMap<'static, i64>>>() == Type::Map(Type::Map(Type::Int.into()).into())
    );
    // three layers
    assert!(
        t::<TypedMap<'static, TypedArray<'static, TypedMap<'static, bool>>>>()
            == Type::Map(Type::Array(Type::Map(Type::Bool.into()).into()).into())
    );
    kani::cover!(true);
}

/// The dynamic side of the same statement for the scalar wrappers: the value
/// produced has the declared TYPE (symbolic leaves).
#[kani::proof]
#[kani::unwind(18)]
fn into_value__scalar_value_has_declared_type() {
    let i: i64 = kani::any();
    let b: bool = kani::any();
    let s: i16 = kani::any();
    let a4: [u8; 4] = kani::any();
    let a16: [u8; 16] = kani::any();
    let v = i.into_value();
    assert!(matches!(&v, LhsValue::Int(x) if *x == i) && v.get_type() == t::<i64>());
    std::mem::forget(v);
    let v = LhsValue::from(b);
    assert!(matches!(&v, LhsValue::Bool(x) if *x == b) && v.get_type() == t::<bool>());
    std::mem::forget(v);
    let v = s.into_value();
    assert!(matches!(&v, LhsValue::Int(x) if *x == s as i64) && v.get_type() == t::<i16>());
    std::mem::forget(v);
    let v4 = Ipv4Addr::from(a4);
    let v6 = Ipv6Addr::from(a16);
    let v = LhsValue::from(v4);
    assert!(matches!(&v, LhsValue::Ip(IpAddr::V4(x)) if *x == v4) && v.get_type() == t::<Ipv4Addr>());
    std::mem::forget(v);
    let v = v6.into_value();
    assert!(matches!(&v, LhsValue::Ip(IpAddr::V6(x)) if *x == v6) && v.get_type() == t::<Ipv6Addr>());
    std::mem::forget(v);
    static RAW: [u8; 2] = [0xff, 0x00];
    let v = LhsValue::from(&RAW[..]);
    assert!(v.get_type() == Type::Bytes && matches!(&v, LhsValue::Bytes(x) if x.len() == 2));
    std::mem::forget(v);
    kani::cover!(true);
}
