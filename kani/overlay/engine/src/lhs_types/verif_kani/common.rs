//! Re-exports of the value-construction support of the private `array` / `map` modules.
pub(crate) use super::super::array::verif_kani::common::{array_borrowed, array_owned};

/// Stub for `std::mem::drop`, used ONLY by obligations that say so
/// (`#[kani::stub(std::mem::drop, ..mem_drop__releases_nothing_observable)]`).
/// Contract assumed of the callee: disposing of a value changes no OTHER object
/// (memory release is not observable by the property). wirefilter-engine never
/// calls `mem::drop` itself; the call that is reached is the one inside
/// `<BTreeMap<K, V> as Drop>::drop` (`drop(ptr::read(self).into_iter())`), on the
/// drop glue of `LhsValue::Map`. CBMC cannot fold the variant tag of an `LhsValue`
/// that has been moved by value (DESIGN.md 10.2 / trap 5), so every drop of an
/// `LhsValue` explores the recursive tree tear-down of a map that is never there.
/// The stub leaks instead of tearing down; nothing else is replaced.
pub(crate) fn mem_drop__releases_nothing_observable<T>(x: T) {
    std::mem::forget(x)
}
