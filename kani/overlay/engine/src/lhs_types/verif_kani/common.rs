//! Re-exports of the value-construction support of the private `array` / `map` modules.
pub(crate) use super::super::array::verif_kani::common::{array_borrowed, array_owned};
