//! C08 obligations on engine/src/lhs_types/map.rs: maps can only be built
//! homogeneous (`Map::try_from_iter`), the typed wrapper declares the type it
//! produces; plus value-construction support for the execution-context
//! obligations (a `Map` value borrowed from a static empty tree).
use super::super::*;
use crate::lhs_types::Array;

/// An empty tree with static lifetime (a plain value: no pointers inside).
pub(crate) static EMPTY_TREE: BTreeMap<Box<[u8]>, LhsValue<'static>> = BTreeMap::new();

/// An empty `Map` of the given element type; `borrowed` selects the
/// representation (borrowed from `EMPTY_TREE` / owned), which is how two
/// otherwise identical empty maps are told apart by `map_is_borrowed`.
/// Constructs a value; no element type check is needed for an empty map.
pub(crate) fn map_empty(ty: Type, borrowed: bool) -> Map<'static> {
    Map {
        val_type: ty.into(),
        data: if borrowed {
            InnerMap::Borrowed(&EMPTY_TREE)
        } else {
            InnerMap::Owned(BTreeMap::new())
        },
    }
}

pub(crate) fn map_is_borrowed(m: &Map<'_>) -> bool {
    matches!(m.data, InnerMap::Borrowed(_))
}

fn ty<const K: usize>() -> Type {
    match K {
        0 => Type::Int,
        1 => Type::Bytes,
        2 => Type::Array(Type::Int.into()),
        3 => Type::Map(Type::Int.into()),
        _ => Type::Bool,
    }
}

fn elem<const K: usize>(x: i64) -> LhsValue<'static> {
    match K {
        0 => LhsValue::Int(x),
        1 => LhsValue::Bytes(Bytes::Owned(Box::new([x as u8]))),
        2 => LhsValue::Array(Array::new(Type::Int)),
        3 => LhsValue::Map(map_empty(Type::Int, false)),
        _ => LhsValue::Bool(x > 0),
    }
}

/// `Map::try_from_iter(DECL, [])`: the empty map of the declared type.
#[kani::proof]
#[kani::unwind(4)]
fn map_try_from_iter__empty() {
    let items: [Result<(Box<[u8]>, LhsValue<'static>), TypeMismatchError>; 0] = [];
    let r = Map::try_from_iter(Type::Int, items);
    match r {
        Ok(m) => {
            assert!(m.get_type() == Type::Map(Type::Int.into()) && m.value_type() == Type::Int);
            assert!(m.len() == 0 && m.is_empty());
            kani::cover!(true);
            std::mem::forget(m);
        }
        Err(e) => {
            std::mem::forget(e);
            assert!(false, "an empty map is homogeneous");
        }
    }
}

/// `Map::try_from_iter(DECL, [(key, v)])` with one entry of kind VK:
/// Ok <=> VK's full type == DECL; Ok => a map of type Map<DECL> holding the
/// entry; Err => TypeMismatch{actual = type of the offending element}.
fn map_try_from_iter_1<const DECL: usize, const VK: usize>() {
    let x: i64 = kani::any();
    let k: u8 = kani::any();
    let key: Box<[u8]> = Box::new([k]);
    let items: [Result<(Box<[u8]>, LhsValue<'static>), TypeMismatchError>; 1] = [Ok((key, elem::<VK>(x)))];
    let r = Map::try_from_iter(ty::<DECL>(), items);
    match r {
        Ok(m) => {
            assert!(ty::<DECL>() == ty::<VK>(), "an element of another type must be refused");
            assert!(m.get_type() == Type::Map(ty::<DECL>().into()), "the map has the declared type");
            assert!(m.len() == 1);
            let kk = [k];
            match m.get(&kk[..]) {
                Some(v) => {
                    assert!(v.get_type() == ty::<DECL>(), "every element has the declared element type");
                    if VK == 0 {
                        assert!(matches!(v, LhsValue::Int(y) if *y == x));
                    }
                }
                None => {
                    assert!(false, "the entry is in the map");
                }
            }
            std::mem::forget(m);
        }
        Err(e) => {
            assert!(ty::<DECL>() != ty::<VK>(), "a homogeneous map must be accepted");
            assert!(e.actual == ty::<VK>(), "the error names the offending element's type");
            std::mem::forget(e);
        }
    }
    kani::cover!(true);
}

// NOT REGISTERED (removed): the same with a well-typed entry (Int in Map<Int>) and with container elements - building
// a BTreeMap with one entry (sort + bulk_push) or dropping a container element read back from the heap does not finish
// in 300 s.  Only the refusal of an ill-typed scalar entry is discharged.
#[kani::proof]
#[kani::unwind(4)]
#[kani::stub(<crate::types::ExpectedTypeList as std::convert::From<crate::types::Type>>::from, crate::types::verif_kani::c08::expected_type_list_from_type__contract)]
fn map_try_from_iter__int_decl_bytes_elem() {
    map_try_from_iter_1::<0, 1>()
}

/// An `Err` item of the input iterator is passed through (first error wins).
#[kani::proof]
#[kani::unwind(4)]
fn map_try_from_iter__input_error_is_returned() {
    #[derive(Debug)]
    struct E(u8);
    impl From<TypeMismatchError> for E {
        fn from(e: TypeMismatchError) -> Self {
            std::mem::forget(e);
            E(0)
        }
    }
    let items: [Result<(Box<[u8]>, LhsValue<'static>), E>; 1] = [Err(E(7))];
    let r = Map::try_from_iter(Type::Int, items);
    assert!(matches!(&r, Err(E(7))));
    kani::cover!(true);
    std::mem::forget(r);
}

/// The typed wrapper produces maps of exactly its declared TYPE (empty map:
/// `BTreeMap` insertion is out of CBMC's reach).
#[kani::proof]
#[kani::unwind(4)]
fn typed_map__declared_type_is_produced_type() {
    let m: TypedMap<'static, i64> = TypedMap::new();
    assert!(m.len() == 0 && m.is_empty());
    {
        let view = m.as_map();
        assert!(view.get_type() == <TypedMap<'static, i64> as IntoValue<'static>>::TYPE);
        assert!(view.get_type() == Type::Map(Type::Int.into()));
        std::mem::forget(view);
    }
    let v = m.into_value();
    assert!(v.get_type() == Type::Map(Type::Int.into()), "TypedMap<i64> is a Map<Int> value");
    assert!(matches!(&v, LhsValue::Map(_)));
    let inner: TypedMap<'static, TypedArray<'static, bool>> = TypedMap::default();
    let mp = Map::from(inner);
    assert!(mp.value_type() == Type::Array(Type::Bool.into()));
    assert!(mp.get_type() == Type::Map(Type::Array(Type::Bool.into()).into()));
    kani::cover!(true);
    std::mem::forget(v);
    std::mem::forget(mp);
}
