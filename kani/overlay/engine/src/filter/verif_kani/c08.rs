//! C08 obligations on engine/src/filter.rs: a filter / value expression runs
//! only against a context of the very scheme it was built with; anything else
//! is a scheme-mismatch error, never an evaluation.  The compiled root is a
//! hand-built trivial closure that records that it ran.
use super::super::*;
use crate::scheme::verif_kani::common::scheme_of;
use std::sync::atomic::{AtomicU32, Ordering};

static RUNS: AtomicU32 = AtomicU32::new(0);

fn runs() -> u32 {
    RUNS.load(Ordering::Relaxed)
}

/// `Filter::execute`: Ok(root(ctx)) <=> ctx.scheme() is the filter's scheme
/// (the same registry, not a structurally identical one); otherwise
/// Err(SchemeMismatchError) and the root closure is NOT invoked.
fn filter_execute<const FOREIGN: bool>() {
    let s1 = scheme_of(&[(Type::Int, true)], true);
    let s2 = scheme_of(&[(Type::Int, true)], true);
    let answer: bool = kani::any();
    let root = CompiledOneExpr::<()>::new(move |_ctx| {
        RUNS.fetch_add(1, Ordering::Relaxed);
        answer
    });
    let filter = Filter::new(root, s1.clone());
    let ctx = ExecutionContext::<()>::new(if FOREIGN { &s2 } else { &s1 });
    let before = runs();
    let r = filter.execute(&ctx);
    match r {
        Ok(b) => {
            assert!(!FOREIGN, "a context of another scheme must be refused");
            assert!(b == answer, "the result is the root expression's result");
            assert!(runs() == before + 1, "evaluated exactly once");
        }
        Err(SchemeMismatchError) => {
            assert!(FOREIGN, "a context of the filter's own scheme must be accepted");
            assert!(runs() == before, "scheme mismatch is never an evaluation");
        }
    }
    kani::cover!(answer, "root expression answers true");
    kani::cover!(!answer, "root expression answers false");
    std::mem::forget(ctx);
    std::mem::forget(filter);
    std::mem::forget((s1, s2));
}

#[kani::proof]
#[kani::unwind(4)]
fn filter_execute__same_scheme_runs() {
    filter_execute::<false>()
}

#[kani::proof]
#[kani::unwind(4)]
fn filter_execute__foreign_scheme_is_mismatch_not_evaluation() {
    filter_execute::<true>()
}

/// `FilterValue::execute`: same contract for value expressions.
fn filter_value_execute<const FOREIGN: bool>() {
    let s1 = scheme_of(&[(Type::Int, true)], true);
    let s2 = scheme_of(&[(Type::Int, true)], true);
    let x: i64 = kani::any();
    let absent: bool = kani::any();
    let root = CompiledValueExpr::<()>::new(move |_ctx| {
        RUNS.fetch_add(1, Ordering::Relaxed);
        if absent { Err(Type::Int) } else { Ok(LhsValue::Int(x)) }
    });
    let fv = FilterValue::new(root, s1.clone());
    let ctx = ExecutionContext::<()>::new(if FOREIGN { &s2 } else { &s1 });
    let before = runs();
    let r = fv.execute(&ctx);
    match &r {
        Ok(v) => {
            assert!(!FOREIGN, "a context of another scheme must be refused");
            assert!(runs() == before + 1, "evaluated exactly once");
            match v {
                Ok(LhsValue::Int(y)) => {
                    assert!(!absent && *y == x, "the result is the root expression's result");
                }
                Err(t) => {
                    assert!(absent && *t == Type::Int);
                }
                _ => {
                    assert!(false);
                }
            }
        }
        Err(SchemeMismatchError) => {
            assert!(FOREIGN, "a context of the expression's own scheme must be accepted");
            assert!(runs() == before, "scheme mismatch is never an evaluation");
        }
    }
    kani::cover!(absent, "root expression yields no value");
    kani::cover!(!absent, "root expression yields a value");
    std::mem::forget(r);
    std::mem::forget(ctx);
    std::mem::forget(fv);
    std::mem::forget((s1, s2));
}

#[kani::proof]
#[kani::unwind(4)]
fn filter_value_execute__same_scheme_runs() {
    filter_value_execute::<false>()
}

#[kani::proof]
#[kani::unwind(4)]
fn filter_value_execute__foreign_scheme_is_mismatch_not_evaluation() {
    filter_value_execute::<true>()
}
