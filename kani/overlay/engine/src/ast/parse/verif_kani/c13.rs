//! C13 obligations: the nesting counter kernel and its configuration plumbing.
use super::super::*;
use crate::scheme::verif_kani::common::scheme_of;

fn any_settings() -> ParserSettings {
    ParserSettings {
        regex_dfa_size_limit: kani::any(),
        regex_compiled_size_limit: kani::any(),
        wildcard_star_limit: kani::any(),
        max_nesting_depth: kani::any(),
    }
}

/// K1: with_increased_nesting.  current >= max  =>  Err(NestingLimitExceeded{limit: max}, span);
/// otherwise Ok(parser') with depth + 1 (no overflow), same scheme, same settings.
#[kani::proof]
#[kani::unwind(3)]
fn with_increased_nesting__contract() {
    let scheme = scheme_of(&[], true);
    let settings = any_settings();
    let mut p = FilterParser::with_settings(&scheme, settings.clone());
    // the counter's integer type is inferred from the field, and everything below is
    // stated over u64, so that a change of the counter's width is judged by the
    // contract (it must count every nesting up to any configurable limit) instead of
    // breaking the build of this obligation
    p.current_nesting_depth = kani::any();
    let cur = p.current_nesting_depth as u64;
    let max = settings.max_nesting_depth as u64;
    let span = "x";
    match p.with_increased_nesting(span) {
        Err((kind, s)) => {
            assert!(cur >= max, "the limit is reported only when it is reached");
            match kind {
                LexErrorKind::NestingLimitExceeded { limit } => {
                    assert!(limit as u64 == max, "the error carries the configured limit");
                }
                _ => {
                    assert!(false, "wrong error kind");
                }
            }
            let _ = s; // (which span the error points at is not part of the property)
            kani::cover!(cur == 0, "limit 0 rejects the first nesting");
            kani::cover!(cur == u16::MAX as u64);
        }
        Ok(n) => {
            assert!(cur < max, "a nesting beyond the limit must be refused");
            assert!(n.current_nesting_depth as u64 == cur + 1, "each nesting construct counts exactly once");
            assert!(n.settings == settings, "settings are inherited unchanged");
            assert!(std::ptr::eq(n.scheme, &scheme), "scheme is inherited");
            assert!(p.current_nesting_depth as u64 == cur, "the outer parser is not modified");
            kani::cover!(cur + 1 == max, "last allowed nesting");
            kani::cover!(cur == (u16::MAX - 1) as u64);
        }
    }
    std::mem::forget(scheme);
}

/// K2: defaults and the settings round trip.
#[kani::proof]
#[kani::unwind(3)]
fn parser_settings__default_128_and_roundtrip() {
    let scheme = scheme_of(&[], true);
    assert!(ParserSettings::default().max_nesting_depth == 128, "d = 128 by default");
    let p = FilterParser::new(&scheme);
    assert!(p.max_nesting_depth() == 128 && p.current_nesting_depth == 0);
    let p = scheme.parser();
    assert!(p.max_nesting_depth() == 128 && p.current_nesting_depth == 0);
    let s = any_settings();
    let p = FilterParser::with_settings(&scheme, s.clone());
    assert!(p.max_nesting_depth() == s.max_nesting_depth && p.current_nesting_depth == 0);
    assert!(*p.settings() == s);
    let p = scheme.parser_with_settings(s.clone());
    assert!(p.max_nesting_depth() == s.max_nesting_depth && p.current_nesting_depth == 0);
    let d: u16 = kani::any();
    let mut p = FilterParser::new(&scheme);
    p.set_max_nesting_depth(d);
    assert!(p.max_nesting_depth() == d && p.settings().max_nesting_depth == d);
    assert!(p.current_nesting_depth == 0, "configuring the limit does not change the current depth");
    assert!(p.wildcard_get_star_limit() == usize::MAX);
    std::mem::forget(scheme);
}

/// The other setters do not disturb the nesting limit.
#[kani::proof]
#[kani::unwind(3)]
fn other_setters__keep_nesting_limit() {
    let scheme = scheme_of(&[], true);
    let s = any_settings();
    let mut p = FilterParser::with_settings(&scheme, s.clone());
    p.regex_set_compiled_size_limit(kani::any());
    p.regex_set_dfa_size_limit(kani::any());
    p.wildcard_set_star_limit(kani::any());
    assert!(p.max_nesting_depth() == s.max_nesting_depth);
    std::mem::forget(scheme);
}
