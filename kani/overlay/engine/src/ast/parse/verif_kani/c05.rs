//! C05 obligations: `ParseError::new` designates a line of the input and a
//! column range inside that line.
use super::super::*;

/// One (input, span) case of the real `ParseError::new`, spelled inline on literals
/// (a helper FUNCTION taking the text makes CBMC lose the constants: one call through a
/// function did not finish in 300 s, the same call inline takes 3 s).
/// Requires (the `assert!` at the top of `new`): `span` = `input[s..e]` is a sub-slice of
/// `input`; s and e are character boundaries.  The expected values are the reference
/// reading of the statement, computed by the generator of this list: `line` = number of
/// line breaks in front of byte s, the reported line = the text between the line breaks
/// around s (`ls` = its start, `ll` = its length), column = s - ls, length = the span
/// cut at the end of that line.
macro_rules! pe_case {
    ($input:literal, $s:literal, $e:literal => line $line:literal, ls $ls:literal, ll $ll:literal, col $col:literal, len $len:literal) => {{
        let input: &'static str = $input;
        let err = ParseError::new(input, (LexErrorKind::EOF, &input[$s..$e]));
        assert!(err.line_number == $line, "the error designates the line where the span starts");
        assert!(
            std::ptr::eq(err.input.as_ptr(), unsafe { input.as_ptr().add($ls) }) && err.input.len() == $ll,
            "the reported line is exactly that line of the input"
        );
        assert!(err.span_start == $col, "the column is the offset inside that line");
        assert!(err.span_len == $len, "the column range is the span cut at the end of the line");
        assert!(err.span_start + err.span_len <= err.input.len(), "the column range lies inside the line");
        std::mem::forget(err);
    }};
}

// EVERY text of up to 2 characters over {line break, a, e-acute (2 bytes)} and EVERY
// sub-slice of it on character boundaries, plus all sub-slices of `a\\n` + e-acute and of
// `\\n` + e-acute + `\\n`: ONE case per obligation (generated list).  Measured and given up:
// N symbolic bytes with a symbolic or constant span cost 220-330 s for ONE byte and do
// not finish in 400 s for two (the substring searcher `memchr` runs on a slice whose
// length is a difference of pointer VALUES, which CBMC does not fold); ten literal cases
// in one obligation do not finish in 300 s either, one case takes 3-15 s - PROVIDED the
// span does not start at byte 0 and its line is not empty: the 47 cases where the real
// function searches an EMPTY haystack (`input[..0].match_indices`, `"".find`) give no
// result in 200 s.  Those are generated below all the same but are NOT REGISTERED in
// C05.toml (37 of 84 are).
macro_rules! pe_harness {
    ($name:ident, $($case:tt)*) => {
        #[kani::proof]
        #[kani::unwind(10)]
        fn $name() {
            $($case)*
            kani::cover!(true, "case completed");
        }
    };
}

pe_harness!(parse_error_new__text_empty__span_0_0, pe_case!("", 0, 0 => line 0, ls 0, ll 0, col 0, len 0););
pe_harness!(parse_error_new__text_nl__span_0_0, pe_case!("\n", 0, 0 => line 0, ls 0, ll 0, col 0, len 0););
pe_harness!(parse_error_new__text_nl__span_0_1, pe_case!("\n", 0, 1 => line 0, ls 0, ll 0, col 0, len 0););
pe_harness!(parse_error_new__text_nl__span_1_1, pe_case!("\n", 1, 1 => line 1, ls 1, ll 0, col 0, len 0););
pe_harness!(parse_error_new__text_a__span_0_0, pe_case!("a", 0, 0 => line 0, ls 0, ll 1, col 0, len 0););
pe_harness!(parse_error_new__text_a__span_0_1, pe_case!("a", 0, 1 => line 0, ls 0, ll 1, col 0, len 1););
pe_harness!(parse_error_new__text_a__span_1_1, pe_case!("a", 1, 1 => line 0, ls 0, ll 1, col 1, len 0););
pe_harness!(parse_error_new__text_e__span_0_0, pe_case!("\u{e9}", 0, 0 => line 0, ls 0, ll 2, col 0, len 0););
pe_harness!(parse_error_new__text_e__span_0_2, pe_case!("\u{e9}", 0, 2 => line 0, ls 0, ll 2, col 0, len 2););
pe_harness!(parse_error_new__text_e__span_2_2, pe_case!("\u{e9}", 2, 2 => line 0, ls 0, ll 2, col 2, len 0););
pe_harness!(parse_error_new__text_nl_nl__span_0_0, pe_case!("\n\n", 0, 0 => line 0, ls 0, ll 0, col 0, len 0););
pe_harness!(parse_error_new__text_nl_nl__span_0_1, pe_case!("\n\n", 0, 1 => line 0, ls 0, ll 0, col 0, len 0););
pe_harness!(parse_error_new__text_nl_nl__span_0_2, pe_case!("\n\n", 0, 2 => line 0, ls 0, ll 0, col 0, len 0););
pe_harness!(parse_error_new__text_nl_nl__span_1_1, pe_case!("\n\n", 1, 1 => line 1, ls 1, ll 0, col 0, len 0););
pe_harness!(parse_error_new__text_nl_nl__span_1_2, pe_case!("\n\n", 1, 2 => line 1, ls 1, ll 0, col 0, len 0););
pe_harness!(parse_error_new__text_nl_nl__span_2_2, pe_case!("\n\n", 2, 2 => line 2, ls 2, ll 0, col 0, len 0););
pe_harness!(parse_error_new__text_nl_a__span_0_0, pe_case!("\na", 0, 0 => line 0, ls 0, ll 0, col 0, len 0););
pe_harness!(parse_error_new__text_nl_a__span_0_1, pe_case!("\na", 0, 1 => line 0, ls 0, ll 0, col 0, len 0););
pe_harness!(parse_error_new__text_nl_a__span_0_2, pe_case!("\na", 0, 2 => line 0, ls 0, ll 0, col 0, len 0););
pe_harness!(parse_error_new__text_nl_a__span_1_1, pe_case!("\na", 1, 1 => line 1, ls 1, ll 1, col 0, len 0););
pe_harness!(parse_error_new__text_nl_a__span_1_2, pe_case!("\na", 1, 2 => line 1, ls 1, ll 1, col 0, len 1););
pe_harness!(parse_error_new__text_nl_a__span_2_2, pe_case!("\na", 2, 2 => line 1, ls 1, ll 1, col 1, len 0););
pe_harness!(parse_error_new__text_nl_e__span_0_0, pe_case!("\n\u{e9}", 0, 0 => line 0, ls 0, ll 0, col 0, len 0););
pe_harness!(parse_error_new__text_nl_e__span_0_1, pe_case!("\n\u{e9}", 0, 1 => line 0, ls 0, ll 0, col 0, len 0););
pe_harness!(parse_error_new__text_nl_e__span_0_3, pe_case!("\n\u{e9}", 0, 3 => line 0, ls 0, ll 0, col 0, len 0););
pe_harness!(parse_error_new__text_nl_e__span_1_1, pe_case!("\n\u{e9}", 1, 1 => line 1, ls 1, ll 2, col 0, len 0););
pe_harness!(parse_error_new__text_nl_e__span_1_3, pe_case!("\n\u{e9}", 1, 3 => line 1, ls 1, ll 2, col 0, len 2););
pe_harness!(parse_error_new__text_nl_e__span_3_3, pe_case!("\n\u{e9}", 3, 3 => line 1, ls 1, ll 2, col 2, len 0););
pe_harness!(parse_error_new__text_a_nl__span_0_0, pe_case!("a\n", 0, 0 => line 0, ls 0, ll 1, col 0, len 0););
pe_harness!(parse_error_new__text_a_nl__span_0_1, pe_case!("a\n", 0, 1 => line 0, ls 0, ll 1, col 0, len 1););
pe_harness!(parse_error_new__text_a_nl__span_0_2, pe_case!("a\n", 0, 2 => line 0, ls 0, ll 1, col 0, len 1););
pe_harness!(parse_error_new__text_a_nl__span_1_1, pe_case!("a\n", 1, 1 => line 0, ls 0, ll 1, col 1, len 0););
pe_harness!(parse_error_new__text_a_nl__span_1_2, pe_case!("a\n", 1, 2 => line 0, ls 0, ll 1, col 1, len 0););
pe_harness!(parse_error_new__text_a_nl__span_2_2, pe_case!("a\n", 2, 2 => line 1, ls 2, ll 0, col 0, len 0););
pe_harness!(parse_error_new__text_a_a__span_0_0, pe_case!("aa", 0, 0 => line 0, ls 0, ll 2, col 0, len 0););
pe_harness!(parse_error_new__text_a_a__span_0_1, pe_case!("aa", 0, 1 => line 0, ls 0, ll 2, col 0, len 1););
pe_harness!(parse_error_new__text_a_a__span_0_2, pe_case!("aa", 0, 2 => line 0, ls 0, ll 2, col 0, len 2););
pe_harness!(parse_error_new__text_a_a__span_1_1, pe_case!("aa", 1, 1 => line 0, ls 0, ll 2, col 1, len 0););
pe_harness!(parse_error_new__text_a_a__span_1_2, pe_case!("aa", 1, 2 => line 0, ls 0, ll 2, col 1, len 1););
pe_harness!(parse_error_new__text_a_a__span_2_2, pe_case!("aa", 2, 2 => line 0, ls 0, ll 2, col 2, len 0););
pe_harness!(parse_error_new__text_a_e__span_0_0, pe_case!("a\u{e9}", 0, 0 => line 0, ls 0, ll 3, col 0, len 0););
pe_harness!(parse_error_new__text_a_e__span_0_1, pe_case!("a\u{e9}", 0, 1 => line 0, ls 0, ll 3, col 0, len 1););
pe_harness!(parse_error_new__text_a_e__span_0_3, pe_case!("a\u{e9}", 0, 3 => line 0, ls 0, ll 3, col 0, len 3););
pe_harness!(parse_error_new__text_a_e__span_1_1, pe_case!("a\u{e9}", 1, 1 => line 0, ls 0, ll 3, col 1, len 0););
pe_harness!(parse_error_new__text_a_e__span_1_3, pe_case!("a\u{e9}", 1, 3 => line 0, ls 0, ll 3, col 1, len 2););
pe_harness!(parse_error_new__text_a_e__span_3_3, pe_case!("a\u{e9}", 3, 3 => line 0, ls 0, ll 3, col 3, len 0););
pe_harness!(parse_error_new__text_e_nl__span_0_0, pe_case!("\u{e9}\n", 0, 0 => line 0, ls 0, ll 2, col 0, len 0););
pe_harness!(parse_error_new__text_e_nl__span_0_2, pe_case!("\u{e9}\n", 0, 2 => line 0, ls 0, ll 2, col 0, len 2););
pe_harness!(parse_error_new__text_e_nl__span_0_3, pe_case!("\u{e9}\n", 0, 3 => line 0, ls 0, ll 2, col 0, len 2););
pe_harness!(parse_error_new__text_e_nl__span_2_2, pe_case!("\u{e9}\n", 2, 2 => line 0, ls 0, ll 2, col 2, len 0););
pe_harness!(parse_error_new__text_e_nl__span_2_3, pe_case!("\u{e9}\n", 2, 3 => line 0, ls 0, ll 2, col 2, len 0););
pe_harness!(parse_error_new__text_e_nl__span_3_3, pe_case!("\u{e9}\n", 3, 3 => line 1, ls 3, ll 0, col 0, len 0););
pe_harness!(parse_error_new__text_e_a__span_0_0, pe_case!("\u{e9}a", 0, 0 => line 0, ls 0, ll 3, col 0, len 0););
pe_harness!(parse_error_new__text_e_a__span_0_2, pe_case!("\u{e9}a", 0, 2 => line 0, ls 0, ll 3, col 0, len 2););
pe_harness!(parse_error_new__text_e_a__span_0_3, pe_case!("\u{e9}a", 0, 3 => line 0, ls 0, ll 3, col 0, len 3););
pe_harness!(parse_error_new__text_e_a__span_2_2, pe_case!("\u{e9}a", 2, 2 => line 0, ls 0, ll 3, col 2, len 0););
pe_harness!(parse_error_new__text_e_a__span_2_3, pe_case!("\u{e9}a", 2, 3 => line 0, ls 0, ll 3, col 2, len 1););
pe_harness!(parse_error_new__text_e_a__span_3_3, pe_case!("\u{e9}a", 3, 3 => line 0, ls 0, ll 3, col 3, len 0););
pe_harness!(parse_error_new__text_e_e__span_0_0, pe_case!("\u{e9}\u{e9}", 0, 0 => line 0, ls 0, ll 4, col 0, len 0););
pe_harness!(parse_error_new__text_e_e__span_0_2, pe_case!("\u{e9}\u{e9}", 0, 2 => line 0, ls 0, ll 4, col 0, len 2););
pe_harness!(parse_error_new__text_e_e__span_0_4, pe_case!("\u{e9}\u{e9}", 0, 4 => line 0, ls 0, ll 4, col 0, len 4););
pe_harness!(parse_error_new__text_e_e__span_2_2, pe_case!("\u{e9}\u{e9}", 2, 2 => line 0, ls 0, ll 4, col 2, len 0););
pe_harness!(parse_error_new__text_e_e__span_2_4, pe_case!("\u{e9}\u{e9}", 2, 4 => line 0, ls 0, ll 4, col 2, len 2););
pe_harness!(parse_error_new__text_e_e__span_4_4, pe_case!("\u{e9}\u{e9}", 4, 4 => line 0, ls 0, ll 4, col 4, len 0););
pe_harness!(parse_error_new__text_a_nl_e__span_0_0, pe_case!("a\n\u{e9}", 0, 0 => line 0, ls 0, ll 1, col 0, len 0););
pe_harness!(parse_error_new__text_a_nl_e__span_0_1, pe_case!("a\n\u{e9}", 0, 1 => line 0, ls 0, ll 1, col 0, len 1););
pe_harness!(parse_error_new__text_a_nl_e__span_0_2, pe_case!("a\n\u{e9}", 0, 2 => line 0, ls 0, ll 1, col 0, len 1););
pe_harness!(parse_error_new__text_a_nl_e__span_0_4, pe_case!("a\n\u{e9}", 0, 4 => line 0, ls 0, ll 1, col 0, len 1););
pe_harness!(parse_error_new__text_a_nl_e__span_1_1, pe_case!("a\n\u{e9}", 1, 1 => line 0, ls 0, ll 1, col 1, len 0););
pe_harness!(parse_error_new__text_a_nl_e__span_1_2, pe_case!("a\n\u{e9}", 1, 2 => line 0, ls 0, ll 1, col 1, len 0););
pe_harness!(parse_error_new__text_a_nl_e__span_1_4, pe_case!("a\n\u{e9}", 1, 4 => line 0, ls 0, ll 1, col 1, len 0););
pe_harness!(parse_error_new__text_a_nl_e__span_2_2, pe_case!("a\n\u{e9}", 2, 2 => line 1, ls 2, ll 2, col 0, len 0););
pe_harness!(parse_error_new__text_a_nl_e__span_2_4, pe_case!("a\n\u{e9}", 2, 4 => line 1, ls 2, ll 2, col 0, len 2););
pe_harness!(parse_error_new__text_a_nl_e__span_4_4, pe_case!("a\n\u{e9}", 4, 4 => line 1, ls 2, ll 2, col 2, len 0););
pe_harness!(parse_error_new__text_nl_e_nl__span_0_0, pe_case!("\n\u{e9}\n", 0, 0 => line 0, ls 0, ll 0, col 0, len 0););
pe_harness!(parse_error_new__text_nl_e_nl__span_0_1, pe_case!("\n\u{e9}\n", 0, 1 => line 0, ls 0, ll 0, col 0, len 0););
pe_harness!(parse_error_new__text_nl_e_nl__span_0_3, pe_case!("\n\u{e9}\n", 0, 3 => line 0, ls 0, ll 0, col 0, len 0););
pe_harness!(parse_error_new__text_nl_e_nl__span_0_4, pe_case!("\n\u{e9}\n", 0, 4 => line 0, ls 0, ll 0, col 0, len 0););
pe_harness!(parse_error_new__text_nl_e_nl__span_1_1, pe_case!("\n\u{e9}\n", 1, 1 => line 1, ls 1, ll 2, col 0, len 0););
pe_harness!(parse_error_new__text_nl_e_nl__span_1_3, pe_case!("\n\u{e9}\n", 1, 3 => line 1, ls 1, ll 2, col 0, len 2););
pe_harness!(parse_error_new__text_nl_e_nl__span_1_4, pe_case!("\n\u{e9}\n", 1, 4 => line 1, ls 1, ll 2, col 0, len 2););
pe_harness!(parse_error_new__text_nl_e_nl__span_3_3, pe_case!("\n\u{e9}\n", 3, 3 => line 1, ls 1, ll 2, col 2, len 0););
pe_harness!(parse_error_new__text_nl_e_nl__span_3_4, pe_case!("\n\u{e9}\n", 3, 4 => line 1, ls 1, ll 2, col 2, len 0););
pe_harness!(parse_error_new__text_nl_e_nl__span_4_4, pe_case!("\n\u{e9}\n", 4, 4 => line 2, ls 4, ll 0, col 0, len 0););

/// Regression obligation with a multi-byte character in front of the span on a later
/// line: `"é\nxé y"`, span = the `y` (byte 7).  Columns are BYTE offsets inside the line;
/// the line and the offsets must slice it on character boundaries.
#[kani::proof]
#[kani::unwind(12)]
fn parse_error_new__multibyte_line_concrete() {
    let input = "\u{e9}\nx\u{e9} y";
    let span = &input[7..8];
    let err = ParseError::new(input, (LexErrorKind::EOF, span));
    assert!(err.line_number == 1);
    assert!(std::ptr::eq(err.input.as_ptr(), unsafe { input.as_ptr().add(3) }) && err.input.len() == 5);
    assert!(err.span_start == 4 && err.span_len == 1);
    assert!(err.input.is_char_boundary(err.span_start) && err.input.is_char_boundary(err.span_start + err.span_len));
    kani::cover!(true, "completed");
    std::mem::forget(err);
}
