//! C05 obligations: `ParseError::new` designates a line of the input and a
//! column range inside that line.
use super::super::*;

/// Requires: `span` = `input[s..e]` is a sub-slice of `input` on character boundaries
/// (the `assert!` at the top of `new` is the function's real precondition).  Checks the
/// real `ParseError::new` on that one (input, span) against a reference computed from
/// the bytes.
fn check_one(input: &'static str, s: usize, e: usize) {
    let buf = input.as_bytes();
    let n = buf.len();
    let span = &input[s..e];
    let err = ParseError::new(input, (LexErrorKind::EOF, span));
    // reference: line containing byte offset s
    let mut line_no = 0;
    let mut line_start = 0;
    let mut i = 0;
    while i < s {
        if buf[i] == b'\n' {
            line_no += 1;
            line_start = i + 1;
        }
        i += 1;
    }
    let mut line_end = line_start;
    while line_end < n && buf[line_end] != b'\n' {
        line_end += 1;
    }
    assert!(err.line_number == line_no, "the error designates the line where the span starts");
    assert!(
        std::ptr::eq(err.input.as_ptr(), unsafe { input.as_ptr().add(line_start) }) && err.input.len() == line_end - line_start,
        "the reported line is exactly that line of the input"
    );
    assert!(err.span_start == s - line_start, "the column is the offset inside that line");
    assert!(err.span_start + err.span_len <= err.input.len(), "the column range lies inside the line");
    // the span is cut at the end of its first line, not shortened otherwise
    assert!(err.span_len == if e <= line_end { e - s } else { line_end - s }, "the column range is the span cut at the end of the line");
    assert!(
        err.input.is_char_boundary(err.span_start) && err.input.is_char_boundary(err.span_start + err.span_len),
        "the column range can be sliced out of the line"
    );
    std::mem::forget(err);
}

// EVERY text of up to 3 characters over {'\n', 'a', 'é' (2 bytes)} and EVERY sub-slice of
// it on character boundaries, each spelled out as its own loop-free call on a string
// literal (generated list).  The symbolic formulations were measured and given up: N
// symbolic bytes with a symbolic or constant span cost 220-330 s for ONE byte and do not
// finish in 400 s for two (the substring searcher `memchr` runs on a slice whose length
// is a difference of pointer VALUES, which CBMC does not fold); a concrete enumeration
// with loops does not finish either, for the same reason.
#[kani::proof]
#[kani::unwind(8)]
fn parse_error_new__texts_of_0_and_1_chars() {
    check_one("", 0, 0);
    check_one("\n", 0, 0);
    check_one("\n", 0, 1);
    check_one("\n", 1, 1);
    check_one("a", 0, 0);
    check_one("a", 0, 1);
    check_one("a", 1, 1);
    check_one("\u{e9}", 0, 0);
    check_one("\u{e9}", 0, 2);
    check_one("\u{e9}", 2, 2);
    kani::cover!(true, "list completed");
}

#[kani::proof]
#[kani::unwind(8)]
fn parse_error_new__texts_of_2_chars_part1() {
    check_one("\n\n", 0, 0);
    check_one("\n\n", 0, 1);
    check_one("\n\n", 0, 2);
    check_one("\n\n", 1, 1);
    check_one("\n\n", 1, 2);
    check_one("\n\n", 2, 2);
    check_one("\na", 0, 0);
    check_one("\na", 0, 1);
    check_one("\na", 0, 2);
    check_one("\na", 1, 1);
    check_one("\na", 1, 2);
    check_one("\na", 2, 2);
    check_one("\n\u{e9}", 0, 0);
    check_one("\n\u{e9}", 0, 1);
    check_one("\n\u{e9}", 0, 3);
    check_one("\n\u{e9}", 1, 1);
    check_one("\n\u{e9}", 1, 3);
    check_one("\n\u{e9}", 3, 3);
    kani::cover!(true, "list completed");
}

#[kani::proof]
#[kani::unwind(8)]
fn parse_error_new__texts_of_2_chars_part2() {
    check_one("a\n", 0, 0);
    check_one("a\n", 0, 1);
    check_one("a\n", 0, 2);
    check_one("a\n", 1, 1);
    check_one("a\n", 1, 2);
    check_one("a\n", 2, 2);
    check_one("aa", 0, 0);
    check_one("aa", 0, 1);
    check_one("aa", 0, 2);
    check_one("aa", 1, 1);
    check_one("aa", 1, 2);
    check_one("aa", 2, 2);
    check_one("a\u{e9}", 0, 0);
    check_one("a\u{e9}", 0, 1);
    check_one("a\u{e9}", 0, 3);
    check_one("a\u{e9}", 1, 1);
    check_one("a\u{e9}", 1, 3);
    check_one("a\u{e9}", 3, 3);
    kani::cover!(true, "list completed");
}

#[kani::proof]
#[kani::unwind(8)]
fn parse_error_new__texts_of_2_chars_part3() {
    check_one("\u{e9}\n", 0, 0);
    check_one("\u{e9}\n", 0, 2);
    check_one("\u{e9}\n", 0, 3);
    check_one("\u{e9}\n", 2, 2);
    check_one("\u{e9}\n", 2, 3);
    check_one("\u{e9}\n", 3, 3);
    check_one("\u{e9}a", 0, 0);
    check_one("\u{e9}a", 0, 2);
    check_one("\u{e9}a", 0, 3);
    check_one("\u{e9}a", 2, 2);
    check_one("\u{e9}a", 2, 3);
    check_one("\u{e9}a", 3, 3);
    check_one("\u{e9}\u{e9}", 0, 0);
    check_one("\u{e9}\u{e9}", 0, 2);
    check_one("\u{e9}\u{e9}", 0, 4);
    check_one("\u{e9}\u{e9}", 2, 2);
    check_one("\u{e9}\u{e9}", 2, 4);
    check_one("\u{e9}\u{e9}", 4, 4);
    kani::cover!(true, "list completed");
}

#[kani::proof]
#[kani::unwind(10)]
fn parse_error_new__texts_of_3_chars_part1() {
    check_one("\n\n\n", 0, 0);
    check_one("\n\n\n", 0, 1);
    check_one("\n\n\n", 0, 2);
    check_one("\n\n\n", 0, 3);
    check_one("\n\n\n", 1, 1);
    check_one("\n\n\n", 1, 2);
    check_one("\n\n\n", 1, 3);
    check_one("\n\n\n", 2, 2);
    check_one("\n\n\n", 2, 3);
    check_one("\n\n\n", 3, 3);
    check_one("\n\na", 0, 0);
    check_one("\n\na", 0, 1);
    check_one("\n\na", 0, 2);
    check_one("\n\na", 0, 3);
    check_one("\n\na", 1, 1);
    check_one("\n\na", 1, 2);
    check_one("\n\na", 1, 3);
    check_one("\n\na", 2, 2);
    check_one("\n\na", 2, 3);
    check_one("\n\na", 3, 3);
    check_one("\n\n\u{e9}", 0, 0);
    check_one("\n\n\u{e9}", 0, 1);
    check_one("\n\n\u{e9}", 0, 2);
    check_one("\n\n\u{e9}", 0, 4);
    check_one("\n\n\u{e9}", 1, 1);
    check_one("\n\n\u{e9}", 1, 2);
    check_one("\n\n\u{e9}", 1, 4);
    check_one("\n\n\u{e9}", 2, 2);
    check_one("\n\n\u{e9}", 2, 4);
    check_one("\n\n\u{e9}", 4, 4);
    kani::cover!(true, "list completed");
}

#[kani::proof]
#[kani::unwind(10)]
fn parse_error_new__texts_of_3_chars_part2() {
    check_one("\na\n", 0, 0);
    check_one("\na\n", 0, 1);
    check_one("\na\n", 0, 2);
    check_one("\na\n", 0, 3);
    check_one("\na\n", 1, 1);
    check_one("\na\n", 1, 2);
    check_one("\na\n", 1, 3);
    check_one("\na\n", 2, 2);
    check_one("\na\n", 2, 3);
    check_one("\na\n", 3, 3);
    check_one("\naa", 0, 0);
    check_one("\naa", 0, 1);
    check_one("\naa", 0, 2);
    check_one("\naa", 0, 3);
    check_one("\naa", 1, 1);
    check_one("\naa", 1, 2);
    check_one("\naa", 1, 3);
    check_one("\naa", 2, 2);
    check_one("\naa", 2, 3);
    check_one("\naa", 3, 3);
    check_one("\na\u{e9}", 0, 0);
    check_one("\na\u{e9}", 0, 1);
    check_one("\na\u{e9}", 0, 2);
    check_one("\na\u{e9}", 0, 4);
    check_one("\na\u{e9}", 1, 1);
    check_one("\na\u{e9}", 1, 2);
    check_one("\na\u{e9}", 1, 4);
    check_one("\na\u{e9}", 2, 2);
    check_one("\na\u{e9}", 2, 4);
    check_one("\na\u{e9}", 4, 4);
    kani::cover!(true, "list completed");
}

#[kani::proof]
#[kani::unwind(10)]
fn parse_error_new__texts_of_3_chars_part3() {
    check_one("\n\u{e9}\n", 0, 0);
    check_one("\n\u{e9}\n", 0, 1);
    check_one("\n\u{e9}\n", 0, 3);
    check_one("\n\u{e9}\n", 0, 4);
    check_one("\n\u{e9}\n", 1, 1);
    check_one("\n\u{e9}\n", 1, 3);
    check_one("\n\u{e9}\n", 1, 4);
    check_one("\n\u{e9}\n", 3, 3);
    check_one("\n\u{e9}\n", 3, 4);
    check_one("\n\u{e9}\n", 4, 4);
    check_one("\n\u{e9}a", 0, 0);
    check_one("\n\u{e9}a", 0, 1);
    check_one("\n\u{e9}a", 0, 3);
    check_one("\n\u{e9}a", 0, 4);
    check_one("\n\u{e9}a", 1, 1);
    check_one("\n\u{e9}a", 1, 3);
    check_one("\n\u{e9}a", 1, 4);
    check_one("\n\u{e9}a", 3, 3);
    check_one("\n\u{e9}a", 3, 4);
    check_one("\n\u{e9}a", 4, 4);
    check_one("\n\u{e9}\u{e9}", 0, 0);
    check_one("\n\u{e9}\u{e9}", 0, 1);
    check_one("\n\u{e9}\u{e9}", 0, 3);
    check_one("\n\u{e9}\u{e9}", 0, 5);
    check_one("\n\u{e9}\u{e9}", 1, 1);
    check_one("\n\u{e9}\u{e9}", 1, 3);
    check_one("\n\u{e9}\u{e9}", 1, 5);
    check_one("\n\u{e9}\u{e9}", 3, 3);
    check_one("\n\u{e9}\u{e9}", 3, 5);
    check_one("\n\u{e9}\u{e9}", 5, 5);
    kani::cover!(true, "list completed");
}

#[kani::proof]
#[kani::unwind(10)]
fn parse_error_new__texts_of_3_chars_part4() {
    check_one("a\n\n", 0, 0);
    check_one("a\n\n", 0, 1);
    check_one("a\n\n", 0, 2);
    check_one("a\n\n", 0, 3);
    check_one("a\n\n", 1, 1);
    check_one("a\n\n", 1, 2);
    check_one("a\n\n", 1, 3);
    check_one("a\n\n", 2, 2);
    check_one("a\n\n", 2, 3);
    check_one("a\n\n", 3, 3);
    check_one("a\na", 0, 0);
    check_one("a\na", 0, 1);
    check_one("a\na", 0, 2);
    check_one("a\na", 0, 3);
    check_one("a\na", 1, 1);
    check_one("a\na", 1, 2);
    check_one("a\na", 1, 3);
    check_one("a\na", 2, 2);
    check_one("a\na", 2, 3);
    check_one("a\na", 3, 3);
    check_one("a\n\u{e9}", 0, 0);
    check_one("a\n\u{e9}", 0, 1);
    check_one("a\n\u{e9}", 0, 2);
    check_one("a\n\u{e9}", 0, 4);
    check_one("a\n\u{e9}", 1, 1);
    check_one("a\n\u{e9}", 1, 2);
    check_one("a\n\u{e9}", 1, 4);
    check_one("a\n\u{e9}", 2, 2);
    check_one("a\n\u{e9}", 2, 4);
    check_one("a\n\u{e9}", 4, 4);
    kani::cover!(true, "list completed");
}

#[kani::proof]
#[kani::unwind(10)]
fn parse_error_new__texts_of_3_chars_part5() {
    check_one("aa\n", 0, 0);
    check_one("aa\n", 0, 1);
    check_one("aa\n", 0, 2);
    check_one("aa\n", 0, 3);
    check_one("aa\n", 1, 1);
    check_one("aa\n", 1, 2);
    check_one("aa\n", 1, 3);
    check_one("aa\n", 2, 2);
    check_one("aa\n", 2, 3);
    check_one("aa\n", 3, 3);
    check_one("aaa", 0, 0);
    check_one("aaa", 0, 1);
    check_one("aaa", 0, 2);
    check_one("aaa", 0, 3);
    check_one("aaa", 1, 1);
    check_one("aaa", 1, 2);
    check_one("aaa", 1, 3);
    check_one("aaa", 2, 2);
    check_one("aaa", 2, 3);
    check_one("aaa", 3, 3);
    check_one("aa\u{e9}", 0, 0);
    check_one("aa\u{e9}", 0, 1);
    check_one("aa\u{e9}", 0, 2);
    check_one("aa\u{e9}", 0, 4);
    check_one("aa\u{e9}", 1, 1);
    check_one("aa\u{e9}", 1, 2);
    check_one("aa\u{e9}", 1, 4);
    check_one("aa\u{e9}", 2, 2);
    check_one("aa\u{e9}", 2, 4);
    check_one("aa\u{e9}", 4, 4);
    kani::cover!(true, "list completed");
}

#[kani::proof]
#[kani::unwind(10)]
fn parse_error_new__texts_of_3_chars_part6() {
    check_one("a\u{e9}\n", 0, 0);
    check_one("a\u{e9}\n", 0, 1);
    check_one("a\u{e9}\n", 0, 3);
    check_one("a\u{e9}\n", 0, 4);
    check_one("a\u{e9}\n", 1, 1);
    check_one("a\u{e9}\n", 1, 3);
    check_one("a\u{e9}\n", 1, 4);
    check_one("a\u{e9}\n", 3, 3);
    check_one("a\u{e9}\n", 3, 4);
    check_one("a\u{e9}\n", 4, 4);
    check_one("a\u{e9}a", 0, 0);
    check_one("a\u{e9}a", 0, 1);
    check_one("a\u{e9}a", 0, 3);
    check_one("a\u{e9}a", 0, 4);
    check_one("a\u{e9}a", 1, 1);
    check_one("a\u{e9}a", 1, 3);
    check_one("a\u{e9}a", 1, 4);
    check_one("a\u{e9}a", 3, 3);
    check_one("a\u{e9}a", 3, 4);
    check_one("a\u{e9}a", 4, 4);
    check_one("a\u{e9}\u{e9}", 0, 0);
    check_one("a\u{e9}\u{e9}", 0, 1);
    check_one("a\u{e9}\u{e9}", 0, 3);
    check_one("a\u{e9}\u{e9}", 0, 5);
    check_one("a\u{e9}\u{e9}", 1, 1);
    check_one("a\u{e9}\u{e9}", 1, 3);
    check_one("a\u{e9}\u{e9}", 1, 5);
    check_one("a\u{e9}\u{e9}", 3, 3);
    check_one("a\u{e9}\u{e9}", 3, 5);
    check_one("a\u{e9}\u{e9}", 5, 5);
    kani::cover!(true, "list completed");
}

#[kani::proof]
#[kani::unwind(10)]
fn parse_error_new__texts_of_3_chars_part7() {
    check_one("\u{e9}\n\n", 0, 0);
    check_one("\u{e9}\n\n", 0, 2);
    check_one("\u{e9}\n\n", 0, 3);
    check_one("\u{e9}\n\n", 0, 4);
    check_one("\u{e9}\n\n", 2, 2);
    check_one("\u{e9}\n\n", 2, 3);
    check_one("\u{e9}\n\n", 2, 4);
    check_one("\u{e9}\n\n", 3, 3);
    check_one("\u{e9}\n\n", 3, 4);
    check_one("\u{e9}\n\n", 4, 4);
    check_one("\u{e9}\na", 0, 0);
    check_one("\u{e9}\na", 0, 2);
    check_one("\u{e9}\na", 0, 3);
    check_one("\u{e9}\na", 0, 4);
    check_one("\u{e9}\na", 2, 2);
    check_one("\u{e9}\na", 2, 3);
    check_one("\u{e9}\na", 2, 4);
    check_one("\u{e9}\na", 3, 3);
    check_one("\u{e9}\na", 3, 4);
    check_one("\u{e9}\na", 4, 4);
    check_one("\u{e9}\n\u{e9}", 0, 0);
    check_one("\u{e9}\n\u{e9}", 0, 2);
    check_one("\u{e9}\n\u{e9}", 0, 3);
    check_one("\u{e9}\n\u{e9}", 0, 5);
    check_one("\u{e9}\n\u{e9}", 2, 2);
    check_one("\u{e9}\n\u{e9}", 2, 3);
    check_one("\u{e9}\n\u{e9}", 2, 5);
    check_one("\u{e9}\n\u{e9}", 3, 3);
    check_one("\u{e9}\n\u{e9}", 3, 5);
    check_one("\u{e9}\n\u{e9}", 5, 5);
    kani::cover!(true, "list completed");
}

#[kani::proof]
#[kani::unwind(10)]
fn parse_error_new__texts_of_3_chars_part8() {
    check_one("\u{e9}a\n", 0, 0);
    check_one("\u{e9}a\n", 0, 2);
    check_one("\u{e9}a\n", 0, 3);
    check_one("\u{e9}a\n", 0, 4);
    check_one("\u{e9}a\n", 2, 2);
    check_one("\u{e9}a\n", 2, 3);
    check_one("\u{e9}a\n", 2, 4);
    check_one("\u{e9}a\n", 3, 3);
    check_one("\u{e9}a\n", 3, 4);
    check_one("\u{e9}a\n", 4, 4);
    check_one("\u{e9}aa", 0, 0);
    check_one("\u{e9}aa", 0, 2);
    check_one("\u{e9}aa", 0, 3);
    check_one("\u{e9}aa", 0, 4);
    check_one("\u{e9}aa", 2, 2);
    check_one("\u{e9}aa", 2, 3);
    check_one("\u{e9}aa", 2, 4);
    check_one("\u{e9}aa", 3, 3);
    check_one("\u{e9}aa", 3, 4);
    check_one("\u{e9}aa", 4, 4);
    check_one("\u{e9}a\u{e9}", 0, 0);
    check_one("\u{e9}a\u{e9}", 0, 2);
    check_one("\u{e9}a\u{e9}", 0, 3);
    check_one("\u{e9}a\u{e9}", 0, 5);
    check_one("\u{e9}a\u{e9}", 2, 2);
    check_one("\u{e9}a\u{e9}", 2, 3);
    check_one("\u{e9}a\u{e9}", 2, 5);
    check_one("\u{e9}a\u{e9}", 3, 3);
    check_one("\u{e9}a\u{e9}", 3, 5);
    check_one("\u{e9}a\u{e9}", 5, 5);
    kani::cover!(true, "list completed");
}

#[kani::proof]
#[kani::unwind(10)]
fn parse_error_new__texts_of_3_chars_part9() {
    check_one("\u{e9}\u{e9}\n", 0, 0);
    check_one("\u{e9}\u{e9}\n", 0, 2);
    check_one("\u{e9}\u{e9}\n", 0, 4);
    check_one("\u{e9}\u{e9}\n", 0, 5);
    check_one("\u{e9}\u{e9}\n", 2, 2);
    check_one("\u{e9}\u{e9}\n", 2, 4);
    check_one("\u{e9}\u{e9}\n", 2, 5);
    check_one("\u{e9}\u{e9}\n", 4, 4);
    check_one("\u{e9}\u{e9}\n", 4, 5);
    check_one("\u{e9}\u{e9}\n", 5, 5);
    check_one("\u{e9}\u{e9}a", 0, 0);
    check_one("\u{e9}\u{e9}a", 0, 2);
    check_one("\u{e9}\u{e9}a", 0, 4);
    check_one("\u{e9}\u{e9}a", 0, 5);
    check_one("\u{e9}\u{e9}a", 2, 2);
    check_one("\u{e9}\u{e9}a", 2, 4);
    check_one("\u{e9}\u{e9}a", 2, 5);
    check_one("\u{e9}\u{e9}a", 4, 4);
    check_one("\u{e9}\u{e9}a", 4, 5);
    check_one("\u{e9}\u{e9}a", 5, 5);
    check_one("\u{e9}\u{e9}\u{e9}", 0, 0);
    check_one("\u{e9}\u{e9}\u{e9}", 0, 2);
    check_one("\u{e9}\u{e9}\u{e9}", 0, 4);
    check_one("\u{e9}\u{e9}\u{e9}", 0, 6);
    check_one("\u{e9}\u{e9}\u{e9}", 2, 2);
    check_one("\u{e9}\u{e9}\u{e9}", 2, 4);
    check_one("\u{e9}\u{e9}\u{e9}", 2, 6);
    check_one("\u{e9}\u{e9}\u{e9}", 4, 4);
    check_one("\u{e9}\u{e9}\u{e9}", 4, 6);
    check_one("\u{e9}\u{e9}\u{e9}", 6, 6);
    kani::cover!(true, "list completed");
}

/// Regression obligation with a multi-byte character in front of the span on a later
/// line: `"é\nxé y"`, span = the `y` (byte 7).  Columns are BYTE offsets inside the line;
/// the line and the offsets must slice it on character boundaries.
#[kani::proof]
#[kani::unwind(12)]
fn parse_error_new__multibyte_line_concrete() {
    let input = "\u{e9}\nx\u{e9} y";
    let span = &input[7..8];
    let err = ParseError::new(input, (LexErrorKind::EOF, span));
    assert!(err.line_number == 1);
    assert!(std::ptr::eq(err.input.as_ptr(), unsafe { input.as_ptr().add(3) }) && err.input.len() == 5);
    assert!(err.span_start == 4 && err.span_len == 1);
    assert!(err.input.is_char_boundary(err.span_start) && err.input.is_char_boundary(err.span_start + err.span_len));
    kani::cover!(true, "completed");
    std::mem::forget(err);
}

#[kani::proof]
#[kani::unwind(8)]
fn probe_pe_1() {
    check_one("a\n", 0, 1);
}
#[kani::proof]
#[kani::unwind(8)]
fn probe_pe_2() {
    check_one("a\n", 0, 1);
    check_one("\na", 1, 2);
}
#[kani::proof]
#[kani::unwind(8)]
fn probe_pe_4() {
    check_one("a\n", 0, 1);
    check_one("\na", 1, 2);
    check_one("\n\n", 1, 2);
    check_one("aa", 0, 2);
}
