//! C05 obligations: `ParseError::new` designates a line of the input and a
//! column range inside that line.
use super::super::*;
use crate::lex::verif_kani::common::ascii_str;

/// Requires: `span` is a sub-slice of `input` (that is the function's real
/// precondition - the `assert!` at its top).  Every string of exactly N bytes
/// over {'\n', 'a', ' '} and every sub-slice [s, e).
fn parse_error_new<const N: usize>() {
    let mut buf = [0u8; N];
    let mut i = 0;
    while i < N {
        buf[i] = match kani::any::<u8>() % 3 {
            0 => b'\n',
            1 => b'a',
            _ => b' ',
        };
        i += 1;
    }
    let input = ascii_str(&buf, N);
    let s: usize = kani::any();
    let e: usize = kani::any();
    kani::assume(s <= e && e <= N);
    let span = &input[s..e];
    let err = ParseError::new(input, (LexErrorKind::EOF, span));
    // reference: line containing byte offset s
    let mut line_no = 0;
    let mut line_start = 0;
    let mut i = 0;
    while i < s {
        if buf[i] == b'\n' {
            line_no += 1;
            line_start = i + 1;
        }
        i += 1;
    }
    let mut line_end = line_start;
    while line_end < N && buf[line_end] != b'\n' {
        line_end += 1;
    }
    assert!(err.line_number == line_no, "the error designates the line where the span starts");
    assert!(
        std::ptr::eq(err.input.as_ptr(), unsafe { input.as_ptr().add(line_start) }) && err.input.len() == line_end - line_start,
        "the reported line is exactly that line of the input"
    );
    assert!(err.span_start == s - line_start, "the column is the offset inside that line");
    assert!(err.span_start + err.span_len <= err.input.len(), "the column range lies inside the line");
    assert!(err.span_len <= e - s);
    kani::cover!(line_no > 0 && s < e, "span on a later line");
    kani::cover!(s == N, "empty span at end of input");
    std::mem::forget(err);
}

#[kani::proof]
#[kani::unwind(5)]
fn parse_error_new__line_and_columns_len1() {
    parse_error_new::<1>()
}

#[kani::proof]
#[kani::unwind(6)]
fn parse_error_new__line_and_columns_len2() {
    parse_error_new::<2>()
}

#[kani::proof]
#[kani::unwind(7)]
fn parse_error_new__line_and_columns_len3() {
    parse_error_new::<3>()
}
