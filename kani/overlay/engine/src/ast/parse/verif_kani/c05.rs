//! C05 obligations: `ParseError::new` designates a line of the input and a
//! column range inside that line.
use super::super::*;

/// Requires: `span` is a sub-slice of `input` on character boundaries (the `assert!` at
/// the top of `new` is the function's real precondition).  Checks one (input, span).
fn check_one(buf: &[u8; 8], n: usize, s: usize, e: usize) {
    let input = unsafe { std::str::from_utf8_unchecked(&buf[..n]) };
    let span = &input[s..e];
    let err = ParseError::new(input, (LexErrorKind::EOF, span));
    // reference: line containing byte offset s
    let mut line_no = 0;
    let mut line_start = 0;
    let mut i = 0;
    while i < s {
        if buf[i] == b'\n' {
            line_no += 1;
            line_start = i + 1;
        }
        i += 1;
    }
    let mut line_end = line_start;
    while line_end < n && buf[line_end] != b'\n' {
        line_end += 1;
    }
    assert!(err.line_number == line_no, "the error designates the line where the span starts");
    assert!(
        std::ptr::eq(err.input.as_ptr(), unsafe { input.as_ptr().add(line_start) }) && err.input.len() == line_end - line_start,
        "the reported line is exactly that line of the input"
    );
    assert!(err.span_start == s - line_start, "the column is the offset inside that line");
    assert!(err.span_start + err.span_len <= err.input.len(), "the column range lies inside the line");
    // the span is cut at the end of its first line, not shortened otherwise
    assert!(err.span_len == if e <= line_end { e - s } else { line_end - s }, "the column range is the span cut at the end of the line");
    assert!(
        err.input.is_char_boundary(err.span_start) && err.input.is_char_boundary(err.span_start + err.span_len),
        "the column range can be sliced out of the line"
    );
    std::mem::forget(err);
}

/// EVERY text of K items over {'\n', 'a', ' ', 'é' (2 bytes)} and EVERY sub-slice of it
/// on character boundaries, enumerated with concrete loops: CBMC executes each call of
/// the real `ParseError::new` on constants.  (The symbolic formulation - N symbolic
/// bytes, symbolic or constant span - costs 220-330 s for ONE byte and does not finish
/// in 400 s for two: the substring searcher (`memchr`) on symbolic content.)
fn parse_error_new_all<const K: usize>() {
    let mut total = 1;
    let mut k = 0;
    while k < K {
        total *= 4;
        k += 1;
    }
    let mut calls = 0u32;
    let mut later_line = 0u32;
    let mut idx = 0;
    while idx < total {
        // decode idx into K letters
        let mut buf = [0u8; 8];
        let mut n = 0;
        let mut rem = idx;
        let mut k = 0;
        while k < K {
            match rem % 4 {
                0 => {
                    buf[n] = b'\n';
                    n += 1;
                }
                1 => {
                    buf[n] = b'a';
                    n += 1;
                }
                2 => {
                    buf[n] = b' ';
                    n += 1;
                }
                _ => {
                    buf[n] = 0xc3;
                    buf[n + 1] = 0xa9;
                    n += 2;
                }
            }
            rem /= 4;
            k += 1;
        }
        let mut s = 0;
        while s <= n {
            if s == n || buf[s] & 0xc0 != 0x80 {
                let mut e = s;
                while e <= n {
                    if e == n || buf[e] & 0xc0 != 0x80 {
                        check_one(&buf, n, s, e);
                        calls += 1;
                        if s > 0 && buf[s - 1] == b'\n' && e > s {
                            later_line += 1;
                        }
                    }
                    e += 1;
                }
            }
            s += 1;
        }
        idx += 1;
    }
    kani::cover!(calls > 0 && (K < 2 || later_line > 0), "enumeration completed, including spans on a later line");
}

#[kani::proof]
#[kani::unwind(8)]
fn parse_error_new__all_texts_of_1_item() {
    parse_error_new_all::<1>()
}

#[kani::proof]
#[kani::unwind(18)]
fn parse_error_new__all_texts_of_2_items() {
    parse_error_new_all::<2>()
}

#[kani::proof]
#[kani::unwind(66)]
fn parse_error_new__all_texts_of_3_items() {
    parse_error_new_all::<3>()
}

/// Regression obligation with a multi-byte character in front of the span on a later
/// line: `"é\nxé y"`, span = the `y` (byte 7).  Columns are BYTE offsets inside the line;
/// the line and the offsets must slice it on character boundaries.
#[kani::proof]
#[kani::unwind(12)]
fn parse_error_new__multibyte_line_concrete() {
    let input = "\u{e9}\nx\u{e9} y";
    let span = &input[7..8];
    let err = ParseError::new(input, (LexErrorKind::EOF, span));
    assert!(err.line_number == 1);
    assert!(std::ptr::eq(err.input.as_ptr(), unsafe { input.as_ptr().add(3) }) && err.input.len() == 5);
    assert!(err.span_start == 4 && err.span_len == 1);
    assert!(err.input.is_char_boundary(err.span_start) && err.input.is_char_boundary(err.span_start + err.span_len));
    kani::cover!(true, "completed");
    std::mem::forget(err);
}
