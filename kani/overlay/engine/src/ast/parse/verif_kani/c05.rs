//! C05 obligations: `ParseError::new` designates a line of the input and a
//! column range inside that line.
use super::super::*;
use crate::lex::verif_kani::common::ascii_str;

/// Requires: `span` is a sub-slice of `input` (that is the function's real
/// precondition - the `assert!` at its top).  Every string of exactly N bytes
/// over {'\n', 'a', ' '} and the sub-slice [S, E).  N, S, E are constants of the
/// obligation (with symbolic S, E the searcher (`memchr`) runs on slices of symbolic
/// length: N = 1 took 326 s, N = 2 did not finish in 400 s).
fn parse_error_new<const N: usize, const S: usize, const E: usize>() {
    let mut buf = [0u8; N];
    let mut i = 0;
    while i < N {
        buf[i] = match kani::any::<u8>() % 3 {
            0 => b'\n',
            1 => b'a',
            _ => b' ',
        };
        i += 1;
    }
    let input = ascii_str(&buf, N);
    let (s, e) = (S, E);
    let span = &input[s..e];
    let err = ParseError::new(input, (LexErrorKind::EOF, span));
    // reference: line containing byte offset s
    let mut line_no = 0;
    let mut line_start = 0;
    let mut i = 0;
    while i < s {
        if buf[i] == b'\n' {
            line_no += 1;
            line_start = i + 1;
        }
        i += 1;
    }
    let mut line_end = line_start;
    while line_end < N && buf[line_end] != b'\n' {
        line_end += 1;
    }
    assert!(err.line_number == line_no, "the error designates the line where the span starts");
    assert!(
        std::ptr::eq(err.input.as_ptr(), unsafe { input.as_ptr().add(line_start) }) && err.input.len() == line_end - line_start,
        "the reported line is exactly that line of the input"
    );
    assert!(err.span_start == s - line_start, "the column is the offset inside that line");
    assert!(err.span_start + err.span_len <= err.input.len(), "the column range lies inside the line");
    assert!(err.span_len <= e - s);
    // the span is cut at the end of its first line, not shortened otherwise
    assert!(err.span_len == if e <= line_end { e - s } else { line_end - s }, "the column range is the span cut at the end of the line");
    kani::cover!(line_no == S, "every byte before the span is a line break");
    kani::cover!(line_no == 0, "span on the first line");
    kani::cover!(err.span_len == E - S, "span inside one line");
    std::mem::forget(err);
}

macro_rules! case {
    ($name:ident, $n:literal, $s:literal, $e:literal) => {
        #[kani::proof]
        #[kani::unwind(6)]
        fn $name() {
            parse_error_new::<$n, $s, $e>()
        }
    };
}

case!(parse_error_new__len1_span_0_0, 1, 0, 0);
case!(parse_error_new__len1_span_0_1, 1, 0, 1);
case!(parse_error_new__len1_span_1_1, 1, 1, 1);

case!(parse_error_new__len2_span_0_0, 2, 0, 0);
case!(parse_error_new__len2_span_0_1, 2, 0, 1);
case!(parse_error_new__len2_span_0_2, 2, 0, 2);
case!(parse_error_new__len2_span_1_1, 2, 1, 1);
case!(parse_error_new__len2_span_1_2, 2, 1, 2);
case!(parse_error_new__len2_span_2_2, 2, 2, 2);

case!(parse_error_new__len3_span_0_0, 3, 0, 0);
case!(parse_error_new__len3_span_0_1, 3, 0, 1);
case!(parse_error_new__len3_span_0_2, 3, 0, 2);
case!(parse_error_new__len3_span_0_3, 3, 0, 3);
case!(parse_error_new__len3_span_1_1, 3, 1, 1);
case!(parse_error_new__len3_span_1_2, 3, 1, 2);
case!(parse_error_new__len3_span_1_3, 3, 1, 3);
case!(parse_error_new__len3_span_2_2, 3, 2, 2);
case!(parse_error_new__len3_span_2_3, 3, 2, 3);
case!(parse_error_new__len3_span_3_3, 3, 3, 3);

/// Regression obligation with a multi-byte character in front of the span on a later
/// line: `"é\nxé y"`, span = the `y` (byte 7).  Columns are BYTE offsets inside the line;
/// the line and the offsets must slice it on character boundaries.
#[kani::proof]
#[kani::unwind(12)]
fn parse_error_new__multibyte_line_concrete() {
    let input = "\u{e9}\nx\u{e9} y";
    let span = &input[7..8];
    let err = ParseError::new(input, (LexErrorKind::EOF, span));
    assert!(err.line_number == 1);
    assert!(std::ptr::eq(err.input.as_ptr(), unsafe { input.as_ptr().add(3) }) && err.input.len() == 5);
    assert!(err.span_start == 4 && err.span_len == 1);
    assert!(err.input.is_char_boundary(err.span_start) && err.input.is_char_boundary(err.span_start + err.span_len));
    kani::cover!(true, "completed");
    std::mem::forget(err);
}
