//! Harness support: access to the parser's private nesting counter from obligations in
//! other modules (width-agnostic: everything is exposed as u64).
use super::super::*;

pub(crate) fn depth(p: &FilterParser<'_>) -> u64 {
    p.current_nesting_depth as u64
}

/// Puts an arbitrary value into the counter and returns it.
pub(crate) fn set_any_depth(p: &mut FilterParser<'_>) -> u64 {
    p.current_nesting_depth = kani::any();
    p.current_nesting_depth as u64
}
