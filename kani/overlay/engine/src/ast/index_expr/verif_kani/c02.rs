//! C02 obligations, kernel K4: the map-each iterator behind `[*]` paths
//! (`MapEachIterator::{from_indexes, reset, next}`, `FieldIndexIterator`) yields
//! the addressed elements in array order, several `[*]` flatten in row-major
//! order, an element without the trailing `[n]` is skipped (it does not end the
//! iteration), an empty / out-of-range container gives an empty result.
//! Direct calls on the real iterator (no context, no compiled closure).
//!
//! NONE OF THESE IS REGISTERED: measured no result in 300-1500 s / > 13 GB even
//! for an empty array, with and without the mem::drop stub: every pop / drop of a
//! stacked `FieldIndexIterator` explores the BTreeMap tear-down of `LhsValue::Map`
//! (CBMC does not fold the variant tag of values moved into the stack vector).
use super::super::*;
use crate::lhs_types::verif_kani::common::{array_borrowed, array_owned};

fn ints<const N: usize>(xs: &[i64; N]) -> Vec<LhsValue<'static>> {
    let mut v = Vec::with_capacity(N);
    let mut i = 0;
    while i < N {
        v.push(LhsValue::Int(xs[i]));
        i += 1;
    }
    v
}

fn int_array<const N: usize>(xs: &[i64; N]) -> LhsValue<'static> {
    LhsValue::Array(array_owned(Type::Int, ints(xs)))
}

fn rows2(r0: LhsValue<'static>, r1: LhsValue<'static>) -> LhsValue<'static> {
    let mut rows = Vec::with_capacity(2);
    rows.push(r0);
    rows.push(r1);
    LhsValue::Array(array_owned(Type::Array(Type::Int.into()), rows))
}

fn rows3(r0: LhsValue<'static>, r1: LhsValue<'static>, r2: LhsValue<'static>) -> LhsValue<'static> {
    let mut rows = Vec::with_capacity(3);
    rows.push(r0);
    rows.push(r1);
    rows.push(r2);
    LhsValue::Array(array_owned(Type::Array(Type::Int.into()), rows))
}

/// next item must be the Int `want`.
fn expect_int(it: &mut MapEachIterator<'_, '_>, want: i64, msg: &'static str) {
    match it.next() {
        Some(LhsValue::Int(v)) => {
            let _ = msg;
            assert!(v == want, "the next item is the expected element");
        }
        Some(other) => {
            std::mem::forget(other);
            assert!(false, "the next item is an element of the expected kind");
        }
        None => {
            assert!(false, "the iteration does not end before the expected element");
        }
    }
}

fn expect_end(it: &mut MapEachIterator<'_, '_>, msg: &'static str) {
    match it.next() {
        None => {}
        Some(other) => {
            let _ = msg;
            std::mem::forget(other);
            assert!(false, "the iteration yields nothing beyond the expected elements");
        }
    }
}

/// `[*]` over an array of N ints: exactly the N elements, in array order.
/// OWNED: the value of a function call; otherwise the `as_ref()` view of a field value.
fn map_each_flat<const N: usize, const OWNED: bool>() {
    let xs: [i64; N] = kani::any();
    let val = int_array(&xs);
    let idx = [FieldIndex::MapEach];
    let mut it = MapEachIterator::from_indexes(&idx);
    if OWNED {
        it.reset(int_array(&xs));
    } else {
        it.reset(val.as_ref());
    }
    let mut k = 0;
    while k < N {
        expect_int(&mut it, xs[k], "[*] applies to every element in array order");
        k += 1;
    }
    expect_end(&mut it, "[*] yields nothing beyond the elements (empty container: nothing)");
    kani::cover!(true);
    std::mem::forget(it);
    std::mem::forget(val);
}

#[kani::proof]
#[kani::stub(std::mem::drop, crate::lhs_types::verif_kani::common::mem_drop__releases_nothing_observable)]
#[kani::unwind(2)]
fn map_each_flat__array_order_n0() {
    map_each_flat::<0, false>()
}

#[kani::proof]
#[kani::stub(std::mem::drop, crate::lhs_types::verif_kani::common::mem_drop__releases_nothing_observable)]
#[kani::unwind(3)]
fn map_each_flat__array_order_n2() {
    map_each_flat::<2, false>()
}

#[kani::proof]
#[kani::stub(std::mem::drop, crate::lhs_types::verif_kani::common::mem_drop__releases_nothing_observable)]
#[kani::unwind(3)]
fn map_each_flat__array_order_owned_n2() {
    map_each_flat::<2, true>()
}

/// `[*][*]` over {[a, b], [], [c]}: a, b, c - row-major, empty rows contribute nothing.
#[kani::proof]
#[kani::stub(std::mem::drop, crate::lhs_types::verif_kani::common::mem_drop__releases_nothing_observable)]
#[kani::unwind(4)]
fn map_each_nested__row_major() {
    let (a, b, c): (i64, i64, i64) = kani::any();
    let val = rows3(int_array(&[a, b]), int_array(&[]), int_array(&[c]));
    let idx = [FieldIndex::MapEach, FieldIndex::MapEach];
    let mut it = MapEachIterator::from_indexes(&idx);
    it.reset(val.as_ref());
    expect_int(&mut it, a, "several [*] flatten in row-major order");
    expect_int(&mut it, b, "several [*] flatten in row-major order");
    expect_int(&mut it, c, "an empty row contributes nothing and does not end the iteration");
    expect_end(&mut it, "nothing beyond the elements");
    kani::cover!(true);
    std::mem::forget(it);
    std::mem::forget(val);
}

/// `[*][j]` over the ragged {[a], [b, c]} with symbolic j: rows WITHOUT element
/// j are skipped, later rows still contribute ([*] in the middle of a path).
#[kani::proof]
#[kani::stub(std::mem::drop, crate::lhs_types::verif_kani::common::mem_drop__releases_nothing_observable)]
#[kani::unwind(3)]
fn map_each_then_index__ragged_rows_are_skipped() {
    let (a, b, c): (i64, i64, i64) = kani::any();
    let val = rows2(int_array(&[a]), int_array(&[b, c]));
    let j: u32 = kani::any();
    let idx = [FieldIndex::MapEach, FieldIndex::ArrayIndex(j)];
    let mut it = MapEachIterator::from_indexes(&idx);
    it.reset(val.as_ref());
    if j == 0 {
        expect_int(&mut it, a, "[*][0]: element 0 of every row, in row order");
        expect_int(&mut it, b, "[*][0]: element 0 of every row, in row order");
    } else if j == 1 {
        expect_int(&mut it, c, "a row without element j is skipped; later rows still contribute");
    }
    expect_end(&mut it, "nothing else");
    kani::cover!(j == 1, "first row lacks element j");
    kani::cover!(j == 2, "no row has element j");
    kani::cover!(j == u32::MAX);
    std::mem::forget(it);
    std::mem::forget(val);
}

/// `[i][*]` over {[a, b], [c]} with symbolic i: the elements of row i; an
/// out-of-range i gives an empty result.
#[kani::proof]
#[kani::stub(std::mem::drop, crate::lhs_types::verif_kani::common::mem_drop__releases_nothing_observable)]
#[kani::unwind(3)]
fn index_then_map_each__row_elements_or_empty() {
    let (a, b, c): (i64, i64, i64) = kani::any();
    let val = rows2(int_array(&[a, b]), int_array(&[c]));
    let i: u32 = kani::any();
    let idx = [FieldIndex::ArrayIndex(i), FieldIndex::MapEach];
    let mut it = MapEachIterator::from_indexes(&idx);
    it.reset(val.as_ref());
    if i == 0 {
        expect_int(&mut it, a, "[0][*]: the elements of row 0 in order");
        expect_int(&mut it, b, "[0][*]: the elements of row 0 in order");
    } else if i == 1 {
        expect_int(&mut it, c, "[1][*]: the elements of row 1");
    }
    expect_end(&mut it, "an out-of-range index before [*] gives an empty result");
    kani::cover!(i == 2, "index == len");
    kani::cover!(i == 1);
    std::mem::forget(it);
    std::mem::forget(val);
}

/// `reset` starts a fresh traversal: after a partial traversal of one value the
/// iterator yields exactly the elements of the next value.
#[kani::proof]
#[kani::stub(std::mem::drop, crate::lhs_types::verif_kani::common::mem_drop__releases_nothing_observable)]
#[kani::unwind(3)]
fn map_each_reset__fresh_traversal() {
    let (a, b, c): (i64, i64, i64) = kani::any();
    let v1 = int_array(&[a, b]);
    let v2 = int_array(&[c]);
    let idx = [FieldIndex::MapEach];
    let mut it = MapEachIterator::from_indexes(&idx);
    it.reset(v1.as_ref());
    expect_int(&mut it, a, "first element");
    it.reset(v2.as_ref());
    expect_int(&mut it, c, "after reset: the elements of the new value only");
    expect_end(&mut it, "after reset: the elements of the new value only");
    kani::cover!(true);
    std::mem::forget(it);
    std::mem::forget((v1, v2));
}

// ---------------------------------------------------------------------------
// One level of the traversal: `FieldIndexIterator` (what `MapEachIterator` stacks).

/// `[j]` level over a borrowed array of N ints: yields element j once if j < N,
/// nothing otherwise; then nothing.
fn level_index<const N: usize>() {
    let xs: [i64; N] = kani::any();
    let vals: [LhsValue<'static>; N] = std::array::from_fn(|i| LhsValue::Int(xs[i]));
    let val = LhsValue::Array(array_borrowed(Type::Int, &vals[..]));
    let j: u32 = kani::any();
    let idx = FieldIndex::ArrayIndex(j);
    let mut it = match FieldIndexIterator::new(val, &idx) {
        Ok(it) => it,
        Err(e) => {
            std::mem::forget(e);
            assert!(false, "an integer index on an array is well-typed");
            return;
        }
    };
    let first = it.next();
    match &first {
        Some(LhsValue::Int(v)) => {
            assert!((j as usize) < N && *v == xs[j as usize], "[j] yields exactly element j");
        }
        None => {
            assert!(j as usize >= N, "an in-range index yields a value");
        }
        Some(_) => {
            assert!(false);
        }
    }
    std::mem::forget(first);
    let second = it.next();
    assert!(second.is_none(), "a plain index yields at most one value");
    std::mem::forget(second);
    kani::cover!(j as usize == N, "index == len");
    kani::cover!((j as usize) < N, "index in range");
    kani::cover!(j == u32::MAX);
    std::mem::forget(it);
    std::mem::forget(vals);
}

#[kani::proof]
#[kani::stub(std::mem::drop, crate::lhs_types::verif_kani::common::mem_drop__releases_nothing_observable)]
#[kani::unwind(3)]
fn field_index_iterator__index_level_n2() {
    level_index::<2>()
}

/// `[*]` level over a borrowed array of N ints: the N elements in order, then nothing.
fn level_each<const N: usize>() {
    let xs: [i64; N] = kani::any();
    let vals: [LhsValue<'static>; N] = std::array::from_fn(|i| LhsValue::Int(xs[i]));
    let val = LhsValue::Array(array_borrowed(Type::Int, &vals[..]));
    let idx = FieldIndex::MapEach;
    let mut it = match FieldIndexIterator::new(val, &idx) {
        Ok(it) => it,
        Err(e) => {
            std::mem::forget(e);
            assert!(false, "[*] on an array is well-typed");
            return;
        }
    };
    let mut k = 0;
    while k < N {
        let got = it.next();
        assert!(matches!(&got, Some(LhsValue::Int(v)) if *v == xs[k]), "[*] yields every element in array order");
        std::mem::forget(got);
        k += 1;
    }
    let end = it.next();
    assert!(end.is_none(), "[*] yields nothing beyond the elements");
    std::mem::forget(end);
    kani::cover!(true);
    std::mem::forget(it);
    std::mem::forget(vals);
}

#[kani::proof]
#[kani::stub(std::mem::drop, crate::lhs_types::verif_kani::common::mem_drop__releases_nothing_observable)]
#[kani::unwind(3)]
fn field_index_iterator__each_level_n2() {
    level_each::<2>()
}

#[kani::proof]
#[kani::stub(std::mem::drop, crate::lhs_types::verif_kani::common::mem_drop__releases_nothing_observable)]
#[kani::unwind(2)]
fn field_index_iterator__each_level_n0() {
    level_each::<0>()
}

// ---------------------------------------------------------------------------
// PROBE: the same traversals over a value that lives entirely in fixed-size locals.
#[kani::proof]
#[kani::stub(std::mem::drop, crate::lhs_types::verif_kani::common::mem_drop__releases_nothing_observable)]
#[kani::unwind(3)]
fn probe_map_each_flat_stack_n2() {
    let xs: [i64; 2] = kani::any();
    let vals = [LhsValue::Int(xs[0]), LhsValue::Int(xs[1])];
    let val = LhsValue::Array(array_borrowed(Type::Int, &vals[..]));
    let idx = [FieldIndex::MapEach];
    let mut it = MapEachIterator::from_indexes(&idx);
    it.reset(val);
    expect_int(&mut it, xs[0], "[*] applies to every element in array order");
    expect_int(&mut it, xs[1], "[*] applies to every element in array order");
    expect_end(&mut it, "[*] yields nothing beyond the elements");
    kani::cover!(true);
    std::mem::forget(it);
    std::mem::forget(vals);
}
