//! C02 obligations: the map-each iterator ([*] paths) yields elements in
//! row-major order, and `compile_with` applies a comparison to the addressed
//! value(s) with the documented absent-value behaviour.
use super::super::*;
use crate::lhs_types::Array;

fn int_array<const N: usize>(xs: &[i64; N]) -> Array<'static> {
    let mut v = Vec::with_capacity(N);
    let mut i = 0;
    while i < N {
        v.push(LhsValue::Int(xs[i]));
        i += 1;
    }
    Array::try_from_vec(Type::Int, v).unwrap()
}

/// `[*]` over an array of N ints: exactly the N elements, in array order.
fn map_each_flat<const N: usize>() {
    let xs: [i64; N] = kani::any();
    let val = LhsValue::Array(int_array(&xs));
    let idx = [FieldIndex::MapEach];
    let mut it = MapEachIterator::from_indexes(&idx);
    it.reset(val);
    let mut k = 0;
    while k < N {
        match it.next() {
            Some(LhsValue::Int(v)) => {
                assert!(v == xs[k], "[*] applies to every element in array order");
            }
            _ => {
                assert!(false, "[*] yields one item per element");
            }
        }
        k += 1;
    }
    assert!(it.next().is_none(), "[*] yields nothing beyond the elements (empty container: nothing)");
    std::mem::forget(it);
}

#[kani::proof]
#[kani::unwind(4)]
fn map_each_flat__array_order_n0() {
    map_each_flat::<0>()
}

#[kani::proof]
#[kani::unwind(6)]
fn map_each_flat__array_order_n2() {
    map_each_flat::<2>()
}

/// `[*][*]` over {[a, b], [], [c]}: a, b, c - row-major, empty rows contribute nothing.
#[kani::proof]
#[kani::unwind(7)]
fn map_each_nested__row_major() {
    let a: i64 = kani::any();
    let b: i64 = kani::any();
    let c: i64 = kani::any();
    let rows = vec![
        LhsValue::Array(int_array(&[a, b])),
        LhsValue::Array(int_array(&[])),
        LhsValue::Array(int_array(&[c])),
    ];
    let val = LhsValue::Array(Array::try_from_vec(Type::Array(Type::Int.into()), rows).unwrap());
    let idx = [FieldIndex::MapEach, FieldIndex::MapEach];
    let mut it = MapEachIterator::from_indexes(&idx);
    it.reset(val);
    assert!(matches!(it.next(), Some(LhsValue::Int(v)) if v == a), "several [*] flatten in row-major order");
    assert!(matches!(it.next(), Some(LhsValue::Int(v)) if v == b));
    assert!(matches!(it.next(), Some(LhsValue::Int(v)) if v == c));
    assert!(it.next().is_none());
    std::mem::forget(it);
}

/// `[i][*]` and `[*][j]` over {[a, b], [c]} with symbolic i, j.
#[kani::proof]
#[kani::unwind(7)]
fn map_each_mixed__index_then_each_and_each_then_index() {
    let a: i64 = kani::any();
    let b: i64 = kani::any();
    let c: i64 = kani::any();
    let mk = || {
        LhsValue::Array(
            Array::try_from_vec(
                Type::Array(Type::Int.into()),
                vec![LhsValue::Array(int_array(&[a, b])), LhsValue::Array(int_array(&[c]))],
            )
            .unwrap(),
        )
    };
    // [i][*]
    let i: u32 = kani::any();
    let idx = [FieldIndex::ArrayIndex(i), FieldIndex::MapEach];
    let mut it = MapEachIterator::from_indexes(&idx);
    it.reset(mk());
    match i {
        0 => {
            assert!(matches!(it.next(), Some(LhsValue::Int(v)) if v == a));
            assert!(matches!(it.next(), Some(LhsValue::Int(v)) if v == b));
        }
        1 => {
            assert!(matches!(it.next(), Some(LhsValue::Int(v)) if v == c));
        }
        _ => {}
    }
    assert!(it.next().is_none(), "an out-of-range index before [*] gives an empty result");
    std::mem::forget(it);
    // [*][j]
    let j: u32 = kani::any();
    let idx = [FieldIndex::MapEach, FieldIndex::ArrayIndex(j)];
    let mut it = MapEachIterator::from_indexes(&idx);
    it.reset(mk());
    match j {
        0 => {
            assert!(matches!(it.next(), Some(LhsValue::Int(v)) if v == a));
            assert!(matches!(it.next(), Some(LhsValue::Int(v)) if v == c));
        }
        1 => {
            assert!(matches!(it.next(), Some(LhsValue::Int(v)) if v == b), "rows without element j are skipped");
        }
        _ => {}
    }
    assert!(it.next().is_none());
    std::mem::forget(it);
}
