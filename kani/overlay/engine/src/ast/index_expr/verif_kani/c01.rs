//! Contract of `IndexExpr::compile_with` (the callee that every comparison arm of
//! `ComparisonExpr::compile_with_compiler` hands its comparison object to; the arms
//! are checked against this contract in `ast::field_expr::verif_kani::{c01,c09,c17}`):
//!
//!   the compiled expression yields `default` when the left-hand side has no value
//!   and `comp.compare(value, ctx)` when it has value `value`.
//!
//! Discharged here on the REAL `compile_with` / `compile_one_with` with an abstract
//! comparison object, for a field left-hand side without and with one index.
use super::super::*;
use super::extracted;
use crate::ast::field_expr::verif_kani::common::{field_lhs, NoCompiler};
use crate::filter::CompiledOneExpr;
use crate::execution_context::verif_kani::common::{put, set_slots1};
use crate::lhs_types::verif_kani::common::array_owned;
use crate::lhs_types::Array;
use crate::scheme::verif_kani::common::{field, field_ref, scheme_of};

/// Abstract comparison object: "is the Int value k".
pub(crate) struct EqK(pub(crate) i64);

impl<U> Compare<U> for EqK {
    fn compare<'e>(&self, v: &LhsValue<'e>, _: &'e ExecutionContext<'e, U>) -> bool {
        matches!(v, LhsValue::Int(i) if *i == self.0)
    }
}

fn run_one(one: CompiledOneExpr<()>, ctx: &ExecutionContext<'_, ()>) -> bool {
    let r = one.execute(ctx);
    std::mem::forget(one);
    r
}

/// Field without indexes (the `IdentifierExpr::Field` arm of `compile_one_with`, lifted
/// mechanically): present value -> comp.compare(value); absent -> default.
fn field_present_or_default(present: bool) {
    let scheme = scheme_of(&[(Type::Int, true)], true);
    let mut ctx = ExecutionContext::<()>::new(&scheme);
    let x: i64 = kani::any();
    let k: i64 = kani::any();
    let default: bool = kani::any();
    set_slots1(&mut ctx, if present { Some(LhsValue::Int(x)) } else { None });
    let indexes = simplify_indexes(Vec::new());
    let one = extracted::compile_one_with__arm_field(&mut NoCompiler, default, EqK(k), indexes, field(&scheme, 0));
    let got = run_one(one, &ctx);
    assert!(got == if present { x == k } else { default }, "value present: the comparison's answer; absent: the default");
    kani::cover!(got);
    kani::cover!(!got);
    std::mem::forget(ctx);
    std::mem::forget(scheme);
}

#[kani::proof]
#[kani::unwind(4)]
fn compile_one_with__field_present() {
    field_present_or_default(true)
}

#[kani::proof]
#[kani::unwind(4)]
fn compile_one_with__field_absent_gives_default() {
    field_present_or_default(false)
}

/// Field with one array index: in range -> comp.compare(element i); out of range or
/// absent field -> default (an out-of-range index yields no value).
fn array_index_body(present: bool, i: u32) {
    let scheme = scheme_of(&[(Type::Array(Type::Int.into()), true)], true);
    let mut ctx = ExecutionContext::<()>::new(&scheme);
    let xs: [i64; 2] = kani::any();
    let k: i64 = kani::any();
    let default: bool = kani::any();
    if present {
        let arr = array_owned(Type::Int, vec![LhsValue::Int(xs[0]), LhsValue::Int(xs[1])]);
        set_slots1(&mut ctx, Some(LhsValue::Array(arr)));
    } else {
        set_slots1(&mut ctx, None);
    }
    let indexes = simplify_indexes(vec![FieldIndex::ArrayIndex(i)]);
    let one = extracted::compile_one_with__arm_field(&mut NoCompiler, default, EqK(k), indexes, field(&scheme, 0));
    let got = run_one(one, &ctx);
    let want = if present && i < 2 { xs[i as usize] == k } else { default };
    assert!(got == want, "indexed element present: the comparison's answer on it; otherwise the default");
    kani::cover!(got);
    kani::cover!(!got);
    std::mem::forget(ctx);
    std::mem::forget(scheme);
}

// NOT REGISTERED (measured: > 19 GB in CBMC's array post-processing as soon as the slot
// holds an Array value; kept for later work)
macro_rules! array_index_case {
    ($name:ident, $present:literal, $i:expr) => {
        #[kani::proof]
        #[kani::unwind(5)]
        fn $name() {
            array_index_body($present, $i)
        }
    };
}
array_index_case!(compile_one_with__array_index_0, true, 0);
array_index_case!(compile_one_with__array_index_1, true, 1);
array_index_case!(compile_one_with__array_index_len_is_out_of_range, true, 2);
array_index_case!(compile_one_with__array_index_u32_max_is_out_of_range, true, u32::MAX);
array_index_case!(compile_one_with__array_index_on_absent_field, false, 0);
