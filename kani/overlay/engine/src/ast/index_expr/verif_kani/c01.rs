//! Contract of `IndexExpr::compile_with` (the callee that every comparison arm of
//! `ComparisonExpr::compile_with_compiler` hands its comparison object to; the arms
//! are checked against this contract in `ast::field_expr::verif_kani::{c01,c09,c17}`):
//!
//!   the compiled expression yields `default` when the left-hand side has no value
//!   and `comp.compare(value, ctx)` when it has value `value`.
//!
//! Discharged here on the REAL `compile_with` / `compile_one_with` with an abstract
//! comparison object, for a field left-hand side without and with one index.
use super::super::*;
use crate::ast::field_expr::verif_kani::common::{field_lhs, NoCompiler};
use crate::execution_context::verif_kani::common::put;
use crate::lhs_types::Array;
use crate::scheme::verif_kani::common::{field_ref, scheme_of};

/// Abstract comparison object: "is the Int value k".
pub(crate) struct EqK(pub(crate) i64);

impl<U> Compare<U> for EqK {
    fn compare<'e>(&self, v: &LhsValue<'e>, _: &'e ExecutionContext<'e, U>) -> bool {
        matches!(v, LhsValue::Int(i) if *i == self.0)
    }
}

fn run_one(e: CompiledExpr<()>, ctx: &ExecutionContext<'_, ()>) -> bool {
    let r = match &e {
        CompiledExpr::One(one) => one.execute(ctx),
        CompiledExpr::Vec(_) => panic!("a left-hand side without [*] compiles to a single boolean"),
    };
    std::mem::forget(e);
    r
}

/// Field without indexes: present value -> comp.compare(value); absent -> default.
fn field_present_or_default(present: bool) {
    let scheme = scheme_of(&[(Type::Int, true)], true);
    let mut ctx = ExecutionContext::<()>::new(&scheme);
    let x: i64 = kani::any();
    let k: i64 = kani::any();
    let default: bool = kani::any();
    if present {
        put(&mut ctx, 0, LhsValue::Int(x));
    }
    let compiled = field_lhs(&scheme, 0).compile_with(&mut NoCompiler, default, EqK(k));
    let got = run_one(compiled, &ctx);
    assert!(got == if present { x == k } else { default }, "value present: the comparison's answer; absent: the default");
    kani::cover!(got);
    kani::cover!(!got);
    std::mem::forget(ctx);
    std::mem::forget(scheme);
}

#[kani::proof]
#[kani::unwind(4)]
fn compile_with__field_present() {
    field_present_or_default(true)
}

#[kani::proof]
#[kani::unwind(4)]
fn compile_with__field_absent_gives_default() {
    field_present_or_default(false)
}

/// Field with one array index: in range -> comp.compare(element i); out of range or
/// absent field -> default (an out-of-range index yields no value).
#[kani::proof]
#[kani::unwind(5)]
fn compile_with__array_index_in_range_or_default() {
    let scheme = scheme_of(&[(Type::Array(Type::Int.into()), true)], true);
    let mut ctx = ExecutionContext::<()>::new(&scheme);
    let present: bool = kani::any();
    let xs: [i64; 2] = kani::any();
    let k: i64 = kani::any();
    let i: u32 = kani::any();
    let default: bool = kani::any();
    if present {
        let arr = Array::try_from_vec(Type::Int, vec![LhsValue::Int(xs[0]), LhsValue::Int(xs[1])]).unwrap();
        put(&mut ctx, 0, LhsValue::Array(arr));
    }
    let mut lhs = field_lhs(&scheme, 0);
    lhs.indexes.push(FieldIndex::ArrayIndex(i));
    let compiled = lhs.compile_with(&mut NoCompiler, default, EqK(k));
    let got = run_one(compiled, &ctx);
    let want = if present && i < 2 { xs[i as usize] == k } else { default };
    assert!(got == want, "indexed element present: the comparison's answer on it; otherwise the default");
    kani::cover!(present && i == 1 && got);
    kani::cover!(present && i == 2);
    kani::cover!(present && i == u32::MAX);
    std::mem::forget(ctx);
    std::mem::forget(scheme);
}
