//! C04 obligations on `IndexExpr`:
//!  * `get_type` (real) follows the index-typing rules on hand-built index lists - this is
//!    the contract `index_expr_get_type__contract` that the `lex_with_lhs` obligations
//!    (ast::field_expr::verif_kani::c04) rely on;
//!  * `map_each_count` counts the `[*]` wherever they are;
//!  * DRAFT, NOT REGISTERED (no result in 400 s for any case, with or without the leaf
//!    literal lexers stubbed): index typing while lexing (`IndexExpr::lex_with`, real):
//!    the index kind must match the container - `[n]` on arrays, `["k"]` on maps, `[*]`
//!    on either, nothing on scalars.  The name registry (`Scheme::get`, a HashMap) is
//!    replaced by its contract for the harness's scheme.  CBMC explores the `while let
//!    Ok(..) = expect(input, "[")` loop to the unwinding bound because the niche-encoded
//!    tag of the `Result` is not folded.
use super::super::*;
use crate::ast::parse::FilterParser;
use crate::scheme::verif_kani::common::{field, field_ref, scheme_of};
use crate::scheme::{Identifier, Scheme};

fn field_expr(scheme: &Scheme, indexes: Vec<FieldIndex>) -> IndexExpr {
    IndexExpr {
        identifier: IdentifierExpr::Field(field(scheme, 0)),
        indexes,
    }
}

// ---------------------------------------------------------------------------
// get_type / map_each_count on hand-built expressions

macro_rules! get_type_case {
    ($name:ident, $decl:expr, [$($idx:expr),*], $want:expr, $each:expr) => {
        #[kani::proof]
        #[kani::unwind(4)]
        #[kani::solver(minisat)]
        fn $name() {
            let scheme = scheme_of(&[($decl, false)], true);
            let e = field_expr(&scheme, vec![$($idx),*]);
            assert!(e.get_type() == $want, "the type after the index accesses");
            assert!(e.map_each_count() == $each, "number of [*]");
            kani::cover!(true, "case decided");
            std::mem::forget(e);
            std::mem::forget(scheme);
        }
    };
}

fn arr(t: Type) -> Type {
    Type::Array(t.into())
}
fn map(t: Type) -> Type {
    Type::Map(t.into())
}

get_type_case!(get_type__bare_field, Type::Ip, [], Type::Ip, 0);
get_type_case!(get_type__array_index, arr(Type::Int), [FieldIndex::ArrayIndex(7)], Type::Int, 0);
get_type_case!(get_type__array_each, arr(Type::Bool), [FieldIndex::MapEach], Type::Bool, 1);
get_type_case!(get_type__map_each, map(Type::Bytes), [FieldIndex::MapEach], Type::Bytes, 1);
get_type_case!(get_type__map_key, map(arr(Type::Int)), [FieldIndex::MapKey(String::from("k"))], arr(Type::Int), 0);
get_type_case!(get_type__each_then_index, arr(arr(Type::Int)), [FieldIndex::MapEach, FieldIndex::ArrayIndex(0)], Type::Int, 1);
get_type_case!(get_type__index_then_each, arr(map(Type::Bool)), [FieldIndex::ArrayIndex(0), FieldIndex::MapEach], Type::Bool, 1);
get_type_case!(get_type__each_each, arr(arr(Type::Bytes)), [FieldIndex::MapEach, FieldIndex::MapEach], Type::Bytes, 2);

// ---------------------------------------------------------------------------
// index typing while lexing

/// Contract of `Scheme::get(name)` for the schemes built here (one field; the
/// hand-built schemes have an empty HashMap): the name `a` is field 0, every other
/// name is unknown.
pub(crate) fn scheme_get__one_field_named_a<'s>(this: &'s Scheme, name: &str) -> Option<Identifier<'s>>
where
    's: 's,
{
    if name.len() == 1 && name.as_bytes()[0] == b'a' {
        Some(Identifier::Field(field_ref(this, 0)))
    } else {
        None
    }
}

/// The schemes built here register no function, so a call can never be lexed: reaching
/// the function-call lexer is a FAILED check (this stub cannot make anything pass).
pub(crate) fn lex_with_function__must_not_be_reached<'i>(
    _input: &'i str,
    _parser: &FilterParser<'_>,
    _function: crate::scheme::FunctionRef<'_>,
) -> LexResult<'i, crate::ast::function_expr::FunctionCallExpr> {
    panic!("the function-call lexer was reached")
}

/// What the stubbed integer-literal lexer returns: Some((value, bytes consumed)) or None
/// for "not an integer".
pub(crate) static mut NEXT_INT: Option<(i64, usize)> = None;

/// Contract of `<i64 as Lex>::lex` (the real one is C06's obligation): on a text that
/// starts with an integer literal, `Ok((its value, the text after it))`; otherwise an
/// error located at the text.  The obligation says which, and gives a text that really
/// starts with that literal.  (`where 'i: 'i` makes the lifetime early-bound like the
/// impl's: Kani compares the number of generic parameters.)
pub(crate) fn i64_lex__contract<'i>(input: &str) -> LexResult<'_, i64>
where
    'i: 'i,
{
    match unsafe { NEXT_INT } {
        Some((v, len)) => Ok((v, &input[len..])),
        None => Err((LexErrorKind::ExpectedName("digit"), input)),
    }
}

/// Contract of `<BytesExpr as Lex>::lex` on the text `"k"...`: the one-byte string `k`,
/// three bytes consumed (only used with such a text).
pub(crate) fn bytes_expr_lex__contract<'i>(input: &str) -> LexResult<'_, crate::rhs_types::BytesExpr>
where
    'i: 'i,
{
    Ok((crate::rhs_types::BytesExpr::from(String::from("k")), &input[3..]))
}

#[derive(Clone, Copy, PartialEq, Eq)]
pub(crate) enum Indexing {
    /// Ok, all the text consumed, with this many indexes of which this many `[*]`
    Accepted(usize, usize),
    /// Err(InvalidIndexAccess) naming this container type
    InvalidIndexAccess,
    Other,
}

fn lex_index_expr(text: &'static str, scheme: &Scheme, actual: Type) -> Indexing {
    let parser = FilterParser::new(scheme);
    match IndexExpr::lex_with(text, &parser) {
        Ok((e, rest)) => {
            let o = if rest.is_empty() { Indexing::Accepted(e.indexes.len(), e.map_each_count()) } else { Indexing::Other };
            std::mem::forget(e);
            o
        }
        Err((kind, at)) => {
            let lo = text.as_ptr() as usize;
            let a = at.as_ptr() as usize;
            assert!(lo <= a && a + at.len() <= lo + text.len(), "the error span lies inside the input");
            let o = match &kind {
                LexErrorKind::InvalidIndexAccess(e) if e.actual == actual => Indexing::InvalidIndexAccess,
                _ => Indexing::Other,
            };
            std::mem::forget(kind);
            o
        }
    }
}

macro_rules! index_typing {
    ($name:ident, $decl:expr, $text:literal, $int:expr, $want:expr, $actual:expr) => {
        #[kani::proof]
        #[kani::unwind(4)]
        #[kani::solver(minisat)]
        #[kani::stub(crate::rhs_types::regex::Regex::new, crate::ast::field_expr::verif_kani::common::regex_new__must_not_be_reached)]
        #[kani::stub(std::mem::drop, crate::ast::field_expr::verif_kani::common::mem_drop__leak)]
        #[kani::stub(crate::scheme::Scheme::get, crate::ast::index_expr::verif_kani::c04::scheme_get__one_field_named_a)]
        #[kani::stub(crate::ast::function_expr::FunctionCallExpr::lex_with_function, crate::ast::index_expr::verif_kani::c04::lex_with_function__must_not_be_reached)]
        #[kani::stub(<i64 as crate::lex::Lex>::lex, crate::ast::index_expr::verif_kani::c04::i64_lex__contract)]
        #[kani::stub(<crate::rhs_types::BytesExpr as crate::lex::Lex>::lex, crate::ast::index_expr::verif_kani::c04::bytes_expr_lex__contract)]
        fn $name() {
            let scheme = scheme_of(&[($decl, false)], true);
            unsafe {
                NEXT_INT = $int;
            }
            let got = lex_index_expr($text, &scheme, $actual);
            assert!(got == $want, "the index kind must match the container");
            kani::cover!(true, "case decided");
            std::mem::forget(scheme);
        }
    };
}

index_typing!(index_typing__array_each, arr(Type::Int), "a[*]", None, Indexing::Accepted(1, 1), Type::Int);
index_typing!(index_typing__map_each, map(Type::Int), "a[*]", None, Indexing::Accepted(1, 1), Type::Int);
index_typing!(index_typing__scalar_each, Type::Bytes, "a[*]", None, Indexing::InvalidIndexAccess, Type::Bytes);
index_typing!(index_typing__array_number, arr(Type::Int), "a[0]", Some((0, 1)), Indexing::Accepted(1, 0), Type::Int);
index_typing!(index_typing__map_number, map(Type::Int), "a[0]", Some((0, 1)), Indexing::InvalidIndexAccess, map(Type::Int));
index_typing!(index_typing__scalar_number, Type::Int, "a[0]", Some((0, 1)), Indexing::InvalidIndexAccess, Type::Int);
index_typing!(index_typing__map_key, map(Type::Int), "a[\"k\"]", None, Indexing::Accepted(1, 0), Type::Int);
index_typing!(index_typing__array_key, arr(Type::Int), "a[\"k\"]", None, Indexing::InvalidIndexAccess, arr(Type::Int));
index_typing!(index_typing__scalar_key, Type::Ip, "a[\"k\"]", None, Indexing::InvalidIndexAccess, Type::Ip);
index_typing!(index_typing__bare, Type::Ip, "a", None, Indexing::Accepted(0, 0), Type::Ip);
