//! Shared support for obligations on `ComparisonExpr::compile_with_compiler`.
//!
//! Modular set-up ("a caller is checked against the callee's contract, not its
//! body"): `compile_with_compiler` hands a *comparison object* and a *default* to
//! `IndexExpr::compile_with` / `compile_vec_with`.  Those callees are replaced
//! (`#[kani::stub]`) by `compile_with__contract` / `compile_vec_with__contract`,
//! which implement the callee's CONTRACT:
//!
//!   the compiled expression yields `default` when the left-hand side has no
//!   value and `comp.compare(value, ctx)` when it has value `value`
//!   (per element for `[*]`).
//!
//! The contract stub evaluates the comparison object it receives on the probe
//! value chosen by the harness and records (default, answer); the harness then
//! asserts the property's reference semantics on what was recorded.  The contract
//! itself is discharged against the real `compile_with` in
//! `ast::index_expr::verif_kani::c02` (recording comparison object).
use super::super::*;
use crate::ast::index_expr::{Compare, IndexExpr};
use crate::compiler::Compiler;
use crate::execution_context::ExecutionContext;
use crate::filter::{CompiledExpr, CompiledOneExpr, CompiledValueExpr, CompiledVecExpr};
use crate::lhs_types::TypedArray;
use crate::{FunctionCallArgExpr, LogicalExpr};

pub(crate) static mut PROBE: Option<LhsValue<'static>> = None;
pub(crate) static mut REC_CALLS: u32 = 0;
pub(crate) static mut REC_VEC_CALLS: u32 = 0;
pub(crate) static mut REC_DEFAULT: Option<bool> = None;
pub(crate) static mut REC_RESULT: Option<bool> = None;

/// The context handed to the comparison object: a fresh context of the left-hand
/// side's scheme (so it holds one matcher per registered list, created by the list
/// definitions in registration order - what `InList` needs; no other comparison
/// object looks at it).  It is built here rather than passed through a static:
/// storing a pointer to a context in a `static mut` makes Kani 0.68 / CBMC 6.11 lose
/// the capacity of later `Vec::new()` values (measured with the probe_vecnew_*
/// probes), which produced spurious allocator failures.
unsafe fn fresh_ctx<U>(this: &IndexExpr) -> &'static ExecutionContext<'static, U> {
    let scheme = this.identifier.scheme();
    Box::leak(Box::new(ExecutionContext::new_with(scheme, || {
        // U = () in every harness
        std::mem::MaybeUninit::<U>::uninit().assume_init()
    })))
}

/// Contract of `IndexExpr::compile_with(self, compiler, default, comp)`.
pub(crate) fn compile_with__contract<C: Compiler>(
    this: IndexExpr,
    _compiler: &mut C,
    default: bool,
    comp: impl Compare<C::U>,
) -> CompiledExpr<C::U> {
    unsafe {
        REC_CALLS += 1;
        REC_DEFAULT = Some(default);
        #[allow(static_mut_refs)]
        if let Some(v) = PROBE.as_ref() {
            let ctx: &'static ExecutionContext<'static, C::U> = fresh_ctx::<C::U>(&this);
            REC_RESULT = Some(comp.compare(v, ctx));
        }
    }
    std::mem::forget(this);
    std::mem::forget(comp);
    CompiledExpr::One(CompiledOneExpr::new(move |_| default))
}

/// Contract of `IndexExpr::compile_vec_with(self, compiler, comp)` (no default:
/// an absent container gives the empty array).
pub(crate) fn compile_vec_with__contract<C: Compiler>(
    this: IndexExpr,
    _compiler: &mut C,
    comp: impl Compare<C::U>,
) -> CompiledVecExpr<C::U> {
    unsafe {
        REC_VEC_CALLS += 1;
        #[allow(static_mut_refs)]
        if let Some(v) = PROBE.as_ref() {
            let ctx: &'static ExecutionContext<'static, C::U> = fresh_ctx::<C::U>(&this);
            REC_RESULT = Some(comp.compare(v, ctx));
        }
    }
    std::mem::forget(this);
    std::mem::forget(comp);
    CompiledVecExpr::new(move |_| TypedArray::default())
}

/// A compiler none of whose entry points may be used (everything the comparison
/// compiles goes through the stubbed `compile_with`).
pub(crate) struct NoCompiler;

impl Compiler for NoCompiler {
    type U = ();

    fn compile_logical_expr(&mut self, node: LogicalExpr) -> CompiledExpr<()> {
        std::mem::forget(node);
        panic!("unexpected compile_logical_expr")
    }
    fn compile_comparison_expr(&mut self, node: ComparisonExpr) -> CompiledExpr<()> {
        std::mem::forget(node);
        panic!("unexpected compile_comparison_expr")
    }
    fn compile_expr(&mut self, node: impl crate::ast::Expr) -> CompiledExpr<()> {
        std::mem::forget(node);
        panic!("unexpected compile_expr")
    }
    fn compile_value_expr(&mut self, node: impl crate::ast::ValueExpr) -> CompiledValueExpr<()> {
        std::mem::forget(node);
        panic!("unexpected compile_value_expr")
    }
    fn compile_function_call_expr(&mut self, node: crate::ast::function_expr::FunctionCallExpr) -> CompiledValueExpr<()> {
        std::mem::forget(node);
        panic!("unexpected compile_function_call_expr")
    }
    fn compile_function_call_arg_expr(&mut self, node: FunctionCallArgExpr) -> CompiledValueExpr<()> {
        std::mem::forget(node);
        panic!("unexpected compile_function_call_arg_expr")
    }
    fn compile_index_expr(&mut self, node: IndexExpr) -> CompiledValueExpr<()> {
        std::mem::forget(node);
        panic!("unexpected compile_index_expr")
    }
}

pub(crate) fn field_lhs(scheme: &Scheme, index: usize) -> IndexExpr {
    IndexExpr {
        identifier: IdentifierExpr::Field(crate::scheme::verif_kani::common::field(scheme, index)),
        indexes: Vec::new(),
    }
}

/// Contract of `<IndexExpr as GetType>::get_type` for a field without indexes: the
/// field's declared type (discharged for the real function in
/// `ast::index_expr::verif_kani::c04`).  Needed because CBMC does not fold the
/// niche-encoded tag of `IdentifierExpr` and would otherwise explore the
/// function-call arm of the real `get_type` recursively.
pub(crate) static mut LHS_TYPE: Option<Type> = None;
pub(crate) fn index_expr_get_type__contract(this: &IndexExpr) -> Type {
    unsafe { LHS_TYPE.unwrap() }
}
