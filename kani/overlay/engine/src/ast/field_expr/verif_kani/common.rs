//! Shared support for obligations on `ComparisonExpr::compile_with_compiler`.
//!
//! Modular set-up ("a caller is checked against the callee's contract, not its
//! body"): `compile_with_compiler` hands a *comparison object* and a *default* to
//! `IndexExpr::compile_with` / `compile_vec_with`.  Those callees are replaced
//! (`#[kani::stub]`) by `compile_with__contract` / `compile_vec_with__contract`,
//! which implement the callee's CONTRACT:
//!
//!   the compiled expression yields `default` when the left-hand side has no
//!   value and `comp.compare(value, ctx)` when it has value `value`
//!   (per element for `[*]`).
//!
//! The contract stub evaluates the comparison object it receives on the probe
//! value chosen by the harness and records (default, answer); the harness then
//! asserts the property's reference semantics on what was recorded.  The contract
//! itself is discharged against the real `compile_with` in
//! `ast::index_expr::verif_kani::c02` (recording comparison object).
use super::super::*;
use crate::ast::index_expr::{Compare, IndexExpr};
use crate::compiler::Compiler;
use crate::execution_context::ExecutionContext;
use crate::filter::{CompiledExpr, CompiledOneExpr, CompiledValueExpr, CompiledVecExpr};
use crate::lhs_types::TypedArray;
use crate::{FunctionCallArgExpr, LogicalExpr};

pub(crate) static mut PROBE: Option<LhsValue<'static>> = None;
pub(crate) static mut REC_CALLS: u32 = 0;
pub(crate) static mut REC_VEC_CALLS: u32 = 0;
pub(crate) static mut REC_DEFAULT: Option<bool> = None;
pub(crate) static mut REC_RESULT: Option<bool> = None;

/// The context handed to the comparison object: a fresh context of the left-hand
/// side's scheme (so it holds one matcher per registered list, created by the list
/// definitions in registration order - what `InList` needs; no other comparison
/// object looks at it).  It is built here rather than passed through a static:
/// storing a pointer to a context in a `static mut` makes Kani 0.68 / CBMC 6.11 lose
/// the capacity of later `Vec::new()` values (measured with the probe_vecnew_*
/// probes), which produced spurious allocator failures.
unsafe fn fresh_ctx<U>(this: &IndexExpr) -> &'static ExecutionContext<'static, U> {
    let scheme = this.identifier.scheme();
    Box::leak(Box::new(ExecutionContext::new_with(scheme, || {
        // U = () in every harness
        std::mem::MaybeUninit::<U>::uninit().assume_init()
    })))
}

/// Contract of `IndexExpr::compile_with(self, compiler, default, comp)`.
pub(crate) fn compile_with__contract<C: Compiler>(
    this: IndexExpr,
    _compiler: &mut C,
    default: bool,
    comp: impl Compare<C::U>,
) -> CompiledExpr<C::U> {
    unsafe {
        REC_CALLS += 1;
        REC_DEFAULT = Some(default);
        #[allow(static_mut_refs)]
        if let Some(v) = PROBE.as_ref() {
            let ctx: &'static ExecutionContext<'static, C::U> = fresh_ctx::<C::U>(&this);
            REC_RESULT = Some(comp.compare(v, ctx));
        }
    }
    std::mem::forget(this);
    std::mem::forget(comp);
    CompiledExpr::One(CompiledOneExpr::new(move |_| default))
}

/// Contract of `IndexExpr::compile_vec_with(self, compiler, comp)` (no default:
/// an absent container gives the empty array).
pub(crate) fn compile_vec_with__contract<C: Compiler>(
    this: IndexExpr,
    _compiler: &mut C,
    comp: impl Compare<C::U>,
) -> CompiledVecExpr<C::U> {
    unsafe {
        REC_VEC_CALLS += 1;
        #[allow(static_mut_refs)]
        if let Some(v) = PROBE.as_ref() {
            let ctx: &'static ExecutionContext<'static, C::U> = fresh_ctx::<C::U>(&this);
            REC_RESULT = Some(comp.compare(v, ctx));
        }
    }
    std::mem::forget(this);
    std::mem::forget(comp);
    CompiledVecExpr::new(move |_| TypedArray::default())
}

/// A compiler none of whose entry points may be used (everything the comparison
/// compiles goes through the stubbed `compile_with`).
pub(crate) struct NoCompiler;

impl Compiler for NoCompiler {
    type U = ();

    fn compile_logical_expr(&mut self, node: LogicalExpr) -> CompiledExpr<()> {
        std::mem::forget(node);
        panic!("unexpected compile_logical_expr")
    }
    fn compile_comparison_expr(&mut self, node: ComparisonExpr) -> CompiledExpr<()> {
        std::mem::forget(node);
        panic!("unexpected compile_comparison_expr")
    }
    fn compile_expr(&mut self, node: impl crate::ast::Expr) -> CompiledExpr<()> {
        std::mem::forget(node);
        panic!("unexpected compile_expr")
    }
    fn compile_value_expr(&mut self, node: impl crate::ast::ValueExpr) -> CompiledValueExpr<()> {
        std::mem::forget(node);
        panic!("unexpected compile_value_expr")
    }
    fn compile_function_call_expr(&mut self, node: crate::ast::function_expr::FunctionCallExpr) -> CompiledValueExpr<()> {
        std::mem::forget(node);
        panic!("unexpected compile_function_call_expr")
    }
    fn compile_function_call_arg_expr(&mut self, node: FunctionCallArgExpr) -> CompiledValueExpr<()> {
        std::mem::forget(node);
        panic!("unexpected compile_function_call_arg_expr")
    }
    fn compile_index_expr(&mut self, node: IndexExpr) -> CompiledValueExpr<()> {
        std::mem::forget(node);
        panic!("unexpected compile_index_expr")
    }
}

pub(crate) fn field_lhs(scheme: &Scheme, index: usize) -> IndexExpr {
    IndexExpr {
        identifier: IdentifierExpr::Field(crate::scheme::verif_kani::common::field(scheme, index)),
        indexes: Vec::new(),
    }
}

/// Contract of `<IndexExpr as GetType>::get_type` for a field without indexes: the
/// field's declared type (discharged for the real function in
/// `ast::index_expr::verif_kani::c04`).  Needed because CBMC does not fold the
/// niche-encoded tag of `IdentifierExpr` and would otherwise explore the
/// function-call arm of the real `get_type` recursively.
pub(crate) static mut LHS_TYPE: Option<Type> = None;
pub(crate) fn index_expr_get_type__contract(this: &IndexExpr) -> Type {
    unsafe { LHS_TYPE.unwrap() }
}

// ---------------------------------------------------------------------------
// Replay of a counterexample against the REAL code, end to end.
//
// Kani's concrete playback compiles the harness as an ordinary `#[test]` (cfg(test) is
// set, no `#[kani::stub]` is applied, `kani::any()` returns the counterexample's
// values).  In that mode the arm obligations do not use the contract stub at all:
// they build the comparison with the real `SchemeBuilder` (HashMap registry and all),
// compile it with the unmodified `ComparisonExpr::compile_with_compiler` and the
// `DefaultCompiler`, execute it on a real context and compare with the reference.
// A playback test therefore fails iff the real code gives the wrong answer on the
// verifier's input.

/// Run `f <op>` natively: `value` = Some(v) sets the field, None leaves the optional field
/// absent.  Returns the filter's truth value.
pub(crate) fn replay_end_to_end(ty: Type, nil_not_equal: bool, op: ComparisonOpExpr, value: Option<LhsValue<'static>>) -> bool {
    let mut builder = crate::scheme::SchemeBuilder::new();
    builder.add_optional_field("f", ty).unwrap();
    builder.set_nil_not_equal_behavior(nil_not_equal);
    replay_on(builder.build(), op, value)
}

pub(crate) fn replay_on(scheme: Scheme, op: ComparisonOpExpr, value: Option<LhsValue<'static>>) -> bool {
    let field = scheme.get_field("f").unwrap();
    let mut ctx = ExecutionContext::<()>::new(&scheme);
    if let Some(v) = value {
        ctx.set_field_value(field, v).unwrap();
    }
    let expr = ComparisonExpr {
        lhs: IndexExpr {
            identifier: IdentifierExpr::Field(field.to_owned()),
            indexes: Vec::new(),
        },
        op,
    };
    match expr.compile_with_compiler(&mut crate::compiler::DefaultCompiler::<()>::new()) {
        CompiledExpr::One(one) => one.execute(&ctx),
        CompiledExpr::Vec(_) => panic!("a scalar comparison must compile to a single boolean"),
    }
}

/// Playback-mode body shared by the arm obligations: present value gives `want`,
/// absent optional field gives `want_absent`.
pub(crate) fn replay_check(ty: Type, nil: bool, op: impl Fn() -> ComparisonOpExpr, value: LhsValue<'static>, want: bool, want_absent: bool) {
    assert!(replay_end_to_end(ty, nil, op(), Some(value)) == want, "REPLAY on real code: wrong answer for a present value");
    assert!(replay_end_to_end(ty, nil, op(), None) == want_absent, "REPLAY on real code: wrong answer for an absent value");
}

/// `Regex::new` makes kani-compiler crash (rvalue.rs:1009, regex_automata's
/// `Result<Core, BuildError>` discriminant) as soon as it is statically reachable, which
/// it is from every parser entry point.  Obligations that run the parser on inputs
/// without regex literals replace it by this function: reaching it is a FAILED check,
/// so the stub can never make an obligation pass.
pub(crate) fn regex_new__must_not_be_reached(
    _pattern: &str,
    _format: crate::rhs_types::RegexFormat,
    _settings: &crate::ast::parse::ParserSettings,
) -> Result<crate::rhs_types::Regex, crate::rhs_types::RegexError> {
    panic!("the regex compiler was reached")
}

/// Replacement for `std::mem::drop` in parser obligations: leak instead of drop.
/// `BTreeMap::drop` is `drop(ptr::read(self).into_iter())`; with this stub the
/// BTreeSet-backed `ExpectedTypeList` inside a `LexErrorKind` is not traversed when a
/// failed parse alternative is discarded (CBMC explores that destructor because the
/// variant tag is not folded: > 250 s per dropped error).  Dropping is not part of any
/// postcondition; leaking cannot make an assertion pass.
pub(crate) fn mem_drop__leak<T>(x: T) {
    std::mem::forget(x)
}
