//! C01 obligations: the ordering-operator kernel used by every scalar comparison.
use super::super::*;
use std::cmp::Ordering;

pub(crate) fn any_ordering_op() -> OrderingOp {
    match kani::any::<u8>() % 6 {
        0 => OrderingOp::Equal,
        1 => OrderingOp::NotEqual,
        2 => OrderingOp::GreaterThanEqual,
        3 => OrderingOp::LessThanEqual,
        4 => OrderingOp::GreaterThan,
        _ => OrderingOp::LessThan,
    }
}

pub(crate) fn any_ordering() -> Ordering {
    match kani::any::<u8>() % 3 {
        0 => Ordering::Less,
        1 => Ordering::Equal,
        _ => Ordering::Greater,
    }
}

/// The table of the property statement.
pub(crate) fn reference(op: OrderingOp, o: Ordering) -> bool {
    match op {
        OrderingOp::Equal => o == Ordering::Equal,
        OrderingOp::NotEqual => o != Ordering::Equal,
        OrderingOp::GreaterThanEqual => o != Ordering::Less,
        OrderingOp::LessThanEqual => o != Ordering::Greater,
        OrderingOp::GreaterThan => o == Ordering::Greater,
        OrderingOp::LessThan => o == Ordering::Less,
    }
}

/// K1: `OrderingOp::matches` has the mathematical meaning of each operator.
#[kani::proof]
fn ordering_op_matches__reference_table() {
    let op = any_ordering_op();
    let o = any_ordering();
    assert!(op.matches(o) == reference(op, o), "matches(op, ordering) follows the operator table");
    kani::cover!(op == OrderingOp::NotEqual && o == Ordering::Less);
    kani::cover!(op == OrderingOp::LessThanEqual && o == Ordering::Equal);
}

/// K2: incomparable operands (None) satisfy only `!=`; comparable ones delegate.
#[kani::proof]
fn ordering_op_matches_opt__incomparable_only_ne() {
    let op = any_ordering_op();
    assert!(op.matches_opt(None) == (op == OrderingOp::NotEqual), "only != holds between unordered values");
    let o = any_ordering();
    assert!(op.matches_opt(Some(o)) == reference(op, o));
}

/// The operator applied to two i64 through their total order is the
/// mathematical comparison (this is what `partial_cmp` + `matches` gives and
/// what the generated `$op` closures must agree with).
#[kani::proof]
fn ordering_op_on_i64__mathematical() {
    let a: i64 = kani::any();
    let b: i64 = kani::any();
    let op = any_ordering_op();
    let want = match op {
        OrderingOp::Equal => a == b,
        OrderingOp::NotEqual => a != b,
        OrderingOp::GreaterThanEqual => a >= b,
        OrderingOp::LessThanEqual => a <= b,
        OrderingOp::GreaterThan => a > b,
        OrderingOp::LessThan => a < b,
    };
    assert!(op.matches_opt(a.strict_partial_cmp(&b)) == want);
    kani::cover!(a == i64::MIN && b == i64::MAX);
}

// ---------------------------------------------------------------------------
// The operator -> comparison-object table inside
// `ComparisonExpr::compile_with_compiler`: each match arm is lifted mechanically
// (kani/extract_arms.py, text unchanged) into `extracted::arm_*` and checked
// modularly against the contract of `IndexExpr::compile_with` (see common.rs).
use super::common::*;
use super::extracted;
use crate::execution_context::ExecutionContext;
use crate::lhs_types::Bytes;
use crate::scheme::verif_kani::common::scheme_of;
use std::net::{IpAddr, Ipv4Addr, Ipv6Addr};

fn want_ord<T: PartialOrd>(op: OrderingOp, a: T, b: T) -> bool {
    match op {
        OrderingOp::Equal => a == b,
        OrderingOp::NotEqual => a != b,
        OrderingOp::GreaterThanEqual => a >= b,
        OrderingOp::LessThanEqual => a <= b,
        OrderingOp::GreaterThan => a > b,
        OrderingOp::LessThan => a < b,
    }
}

fn check_default(op: OrderingOp, nil: bool) {
    unsafe {
        assert!(REC_CALLS == 1 && REC_VEC_CALLS == 0, "exactly one comparison object is compiled");
        assert!(
            REC_DEFAULT == Some(if op == OrderingOp::NotEqual { nil } else { false }),
            "absent left side: false, except != which is the scheme's nil-not-equal setting"
        );
    }
}

/// The statements before `match self.op`: `lhs` is the comparison's left side,
/// `nil_not_equal_behavior` is the scheme's setting, the operator is untouched.
#[kani::proof]
#[kani::unwind(3)]
fn compile_prologue__nil_setting_is_the_schemes() {
    let nil: bool = kani::any();
    let scheme = scheme_of(&[(Type::Int, false)], nil);
    let b: i64 = kani::any();
    let expr = ComparisonExpr {
        lhs: field_lhs(&scheme, 0),
        op: ComparisonOpExpr::Int { op: IntOp::BitwiseAnd, rhs: b },
    };
    let (lhs, got, op) = extracted::prologue(expr);
    assert!(got == nil, "nil_not_equal_behavior is the scheme's setting");
    assert!(lhs.indexes.is_empty());
    assert!(matches!(&lhs.identifier, IdentifierExpr::Field(f) if f.index() == 0));
    assert!(matches!(op, ComparisonOpExpr::Int { op: IntOp::BitwiseAnd, rhs } if rhs == b));
    std::mem::forget(lhs);
    std::mem::forget(scheme);
}

/// `n <op> b` for an Int field: the comparison object handed to `compile_with`
/// answers the mathematical comparison on all of i64 x i64 for every operator, and
/// the default for an absent left side is the nil-not-equal setting for `!=`, false
/// otherwise.
#[kani::proof]
#[kani::unwind(3)]
#[kani::stub(crate::ast::index_expr::IndexExpr::compile_with, crate::ast::field_expr::verif_kani::common::compile_with__contract)]
fn compile_ordering_int__operator_table_and_nil_default() {
    let nil: bool = kani::any();
    let scheme = scheme_of(&[(Type::Int, false)], true);
    let a: i64 = kani::any();
    let b: i64 = kani::any();
    let op = any_ordering_op();
    if cfg!(test) {
        // concrete playback: replay the counterexample on the real code, end to end
        let absent = if op == OrderingOp::NotEqual { nil } else { false };
        replay_check(Type::Int, nil, || ComparisonOpExpr::Ordering { op, rhs: RhsValue::Int(b) }, LhsValue::Int(a), want_ord(op, a, b), absent);
        return;
    }
    unsafe {
        PROBE = Some(LhsValue::Int(a));
    }
    let compiled = extracted::arm_ordering(field_lhs(&scheme, 0), &mut NoCompiler, nil, op, RhsValue::Int(b));
    std::mem::forget(compiled);
    unsafe {
        assert!(REC_RESULT == Some(want_ord(op, a, b)), "integer operator has its mathematical meaning");
    }
    check_default(op, nil);
    kani::cover!(op == OrderingOp::NotEqual && nil);
    kani::cover!(op == OrderingOp::LessThan && a == i64::MIN && b == i64::MAX);
    std::mem::forget(scheme);
}

/// `ip <op> lit`: per-family order, an IPv4 and an IPv6 address are unordered (only
/// `!=` holds), nil default as above.  The two address families are constants of each
/// obligation (4 obligations); addresses and operator are symbolic.
fn ordering_ip_body(a_is4: bool, b_is4: bool) {
    let nil: bool = kani::any();
    let scheme = scheme_of(&[(Type::Ip, false)], true);
    let a4: u32 = kani::any();
    let b4: u32 = kani::any();
    let a6: u128 = kani::any();
    let b6: u128 = kani::any();
    let a = if a_is4 { IpAddr::V4(Ipv4Addr::from(a4)) } else { IpAddr::V6(Ipv6Addr::from(a6)) };
    let b = if b_is4 { IpAddr::V4(Ipv4Addr::from(b4)) } else { IpAddr::V6(Ipv6Addr::from(b6)) };
    let op = any_ordering_op();
    if cfg!(test) {
        let want = if a_is4 && b_is4 {
            want_ord(op, a4, b4)
        } else if !a_is4 && !b_is4 {
            want_ord(op, a6, b6)
        } else {
            op == OrderingOp::NotEqual
        };
        let absent = if op == OrderingOp::NotEqual { nil } else { false };
        replay_check(Type::Ip, nil, || ComparisonOpExpr::Ordering { op, rhs: RhsValue::Ip(b) }, LhsValue::Ip(a), want, absent);
        return;
    }
    unsafe {
        PROBE = Some(LhsValue::Ip(a));
    }
    let compiled = extracted::arm_ordering(field_lhs(&scheme, 0), &mut NoCompiler, nil, op, RhsValue::Ip(b));
    std::mem::forget(compiled);
    let want = if a_is4 && b_is4 {
        want_ord(op, a4, b4)
    } else if !a_is4 && !b_is4 {
        want_ord(op, a6, b6)
    } else {
        op == OrderingOp::NotEqual
    };
    unsafe {
        assert!(REC_RESULT == Some(want), "per-family IP order; across families only != holds");
    }
    check_default(op, nil);
    kani::cover!(want);
    kani::cover!(!want);
    std::mem::forget(scheme);
}

macro_rules! ip_ordering_case {
    ($name:ident, $unwind:literal, $a4:literal, $b4:literal) => {
        #[kani::proof]
        #[kani::unwind($unwind)]
        #[kani::stub(crate::ast::index_expr::IndexExpr::compile_with, crate::ast::field_expr::verif_kani::common::compile_with__contract)]
        fn $name() {
            ordering_ip_body($a4, $b4)
        }
    };
}
ip_ordering_case!(compile_ordering_ip__v4_v4, 6, true, true);
ip_ordering_case!(compile_ordering_ip__v4_v6, 6, true, false);
ip_ordering_case!(compile_ordering_ip__v6_v4, 6, false, true);
ip_ordering_case!(compile_ordering_ip__v6_v6, 18, false, false);

/// `n & mask` (bitwise-and test): true iff some bit is common, on all of i64 x i64
/// (including results with only the sign bit set); absent left side: false.
#[kani::proof]
#[kani::unwind(3)]
#[kani::stub(crate::ast::index_expr::IndexExpr::compile_with, crate::ast::field_expr::verif_kani::common::compile_with__contract)]
fn compile_bitwise_and__nonzero_intersection() {
    let nil: bool = kani::any();
    let scheme = scheme_of(&[(Type::Int, false)], true);
    let a: i64 = kani::any();
    let b: i64 = kani::any();
    if cfg!(test) {
        replay_check(Type::Int, nil, || ComparisonOpExpr::Int { op: IntOp::BitwiseAnd, rhs: b }, LhsValue::Int(a), (a & b) != 0, false);
        return;
    }
    unsafe {
        PROBE = Some(LhsValue::Int(a));
    }
    let compiled = extracted::arm_int_bitwise_and(field_lhs(&scheme, 0), &mut NoCompiler, nil, b);
    std::mem::forget(compiled);
    unsafe {
        assert!(REC_CALLS == 1 && REC_VEC_CALLS == 0);
        assert!(REC_RESULT == Some((a & b) != 0), "bitwise-and test: some common bit");
        assert!(REC_DEFAULT == Some(false), "absent left side is false");
    }
    kani::cover!(a < 0 && b < 0);
    std::mem::forget(scheme);
}

/// A bare boolean field: the comparison object is the field's value; absent: false.
#[kani::proof]
#[kani::unwind(4)]
#[kani::stub(crate::ast::index_expr::IndexExpr::compile_with, crate::ast::field_expr::verif_kani::common::compile_with__contract)]
#[kani::stub(crate::ast::index_expr::IndexExpr::compile_vec_with, crate::ast::field_expr::verif_kani::common::compile_vec_with__contract)]
#[kani::stub(<crate::ast::index_expr::IndexExpr as crate::types::GetType>::get_type, crate::ast::field_expr::verif_kani::common::index_expr_get_type__contract)]
fn compile_is_true__bare_boolean_field() {
    let nil: bool = kani::any();
    let scheme = scheme_of(&[(Type::Bool, false)], true);
    let a: bool = kani::any();
    if cfg!(test) {
        replay_check(Type::Bool, nil, || ComparisonOpExpr::IsTrue, LhsValue::Bool(a), a, false);
        return;
    }
    unsafe {
        PROBE = Some(LhsValue::Bool(a));
        LHS_TYPE = Some(Type::Bool);
    }
    let compiled = extracted::arm_is_true(field_lhs(&scheme, 0), &mut NoCompiler, nil);
    std::mem::forget(compiled);
    unsafe {
        assert!(REC_CALLS == 1 && REC_VEC_CALLS == 0, "a Bool field compiles to a single-boolean expression");
        assert!(REC_RESULT == Some(a), "a bare boolean field is its value");
        assert!(REC_DEFAULT == Some(false), "absent boolean field is false");
    }
    std::mem::forget(scheme);
}

/// `b <op> "lit"` on byte strings: lexicographic byte order (a proper prefix is
/// smaller), for every operator; values and literal of length 0..=2, symbolic bytes.
#[kani::proof]
#[kani::unwind(6)]
#[kani::stub(crate::ast::index_expr::IndexExpr::compile_with, crate::ast::field_expr::verif_kani::common::compile_with__contract)]
fn compile_ordering_bytes__lexicographic() {
    static mut XB: [u8; 2] = [0; 2];
    let nil: bool = kani::any();
    let scheme = scheme_of(&[(Type::Bytes, false)], true);
    let xb: [u8; 2] = kani::any();
    let xlen: usize = kani::any();
    let lb: [u8; 2] = kani::any();
    let llen: usize = kani::any();
    kani::assume(xlen <= 2 && llen <= 2);
    let op = any_ordering_op();
    if cfg!(test) {
        let x = &xb[..xlen];
        let l = &lb[..llen];
        let absent = if op == OrderingOp::NotEqual { nil } else { false };
        replay_check(
            Type::Bytes,
            nil,
            || ComparisonOpExpr::Ordering { op, rhs: RhsValue::Bytes(crate::rhs_types::BytesExpr::new(l.to_vec(), crate::rhs_types::BytesFormat::Quoted)) },
            LhsValue::Bytes(Bytes::Owned(x.to_vec().into_boxed_slice())),
            want_ord(op, x, l),
            absent,
        );
        return;
    }
    #[allow(static_mut_refs)]
    unsafe {
        XB = xb;
        PROBE = Some(LhsValue::Bytes(Bytes::Borrowed(&XB[..xlen])));
    }
    let lit = crate::rhs_types::BytesExpr::new(lb[..llen].to_vec(), crate::rhs_types::BytesFormat::Quoted);
    let compiled = extracted::arm_ordering(field_lhs(&scheme, 0), &mut NoCompiler, nil, op, RhsValue::Bytes(lit));
    std::mem::forget(compiled);
    // reference lexicographic comparison, written out
    let mut ord = std::cmp::Ordering::Equal;
    let mut i = 0;
    while i < 2 {
        if ord == std::cmp::Ordering::Equal {
            if i < xlen && i < llen {
                ord = if xb[i] < lb[i] { std::cmp::Ordering::Less } else if xb[i] > lb[i] { std::cmp::Ordering::Greater } else { ord };
            } else if i < llen {
                ord = std::cmp::Ordering::Less;
            } else if i < xlen {
                ord = std::cmp::Ordering::Greater;
            }
        }
        i += 1;
    }
    unsafe {
        assert!(REC_RESULT == Some(reference(op, ord)), "byte strings compare lexicographically");
    }
    check_default(op, nil);
    kani::cover!(xlen == 1 && llen == 2 && xb[0] == lb[0]);
    std::mem::forget(scheme);
}

/// A bare field of type Array(Bool) / Map(Bool): compiled through `compile_vec_with` (one
/// boolean per element, no default), each element being its own value.
#[kani::proof]
#[kani::unwind(4)]
#[kani::stub(crate::ast::index_expr::IndexExpr::compile_with, crate::ast::field_expr::verif_kani::common::compile_with__contract)]
#[kani::stub(crate::ast::index_expr::IndexExpr::compile_vec_with, crate::ast::field_expr::verif_kani::common::compile_vec_with__contract)]
#[kani::stub(<crate::ast::index_expr::IndexExpr as crate::types::GetType>::get_type, crate::ast::field_expr::verif_kani::common::index_expr_get_type__contract)]
fn compile_is_true__container_of_booleans_is_elementwise() {
    let is_map: bool = kani::any();
    let ty = if is_map { Type::Map(Type::Bool.into()) } else { Type::Array(Type::Bool.into()) };
    let scheme = scheme_of(&[(ty, false)], true);
    let a: bool = kani::any();
    unsafe {
        PROBE = Some(LhsValue::Bool(a));
        LHS_TYPE = Some(ty);
    }
    let compiled = extracted::arm_is_true(field_lhs(&scheme, 0), &mut NoCompiler, kani::any());
    assert!(matches!(&compiled, CompiledExpr::Vec(_)), "a container of booleans compiles to a boolean ARRAY expression");
    std::mem::forget(compiled);
    unsafe {
        assert!(REC_VEC_CALLS == 1 && REC_CALLS == 0, "compiled element-wise (compile_vec_with), exactly once");
        assert!(REC_RESULT == Some(a), "each element is its own truth value");
    }
    kani::cover!(is_map);
    kani::cover!(!is_map);
    std::mem::forget(scheme);
}
