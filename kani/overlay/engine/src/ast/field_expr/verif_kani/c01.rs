//! C01 obligations: the ordering-operator kernel used by every scalar comparison.
use super::super::*;
use std::cmp::Ordering;

pub(crate) fn any_ordering_op() -> OrderingOp {
    match kani::any::<u8>() % 6 {
        0 => OrderingOp::Equal,
        1 => OrderingOp::NotEqual,
        2 => OrderingOp::GreaterThanEqual,
        3 => OrderingOp::LessThanEqual,
        4 => OrderingOp::GreaterThan,
        _ => OrderingOp::LessThan,
    }
}

pub(crate) fn any_ordering() -> Ordering {
    match kani::any::<u8>() % 3 {
        0 => Ordering::Less,
        1 => Ordering::Equal,
        _ => Ordering::Greater,
    }
}

/// The table of the property statement.
pub(crate) fn reference(op: OrderingOp, o: Ordering) -> bool {
    match op {
        OrderingOp::Equal => o == Ordering::Equal,
        OrderingOp::NotEqual => o != Ordering::Equal,
        OrderingOp::GreaterThanEqual => o != Ordering::Less,
        OrderingOp::LessThanEqual => o != Ordering::Greater,
        OrderingOp::GreaterThan => o == Ordering::Greater,
        OrderingOp::LessThan => o == Ordering::Less,
    }
}

/// K1: `OrderingOp::matches` has the mathematical meaning of each operator.
#[kani::proof]
fn ordering_op_matches__reference_table() {
    let op = any_ordering_op();
    let o = any_ordering();
    assert!(op.matches(o) == reference(op, o), "matches(op, ordering) follows the operator table");
    kani::cover!(op == OrderingOp::NotEqual && o == Ordering::Less);
    kani::cover!(op == OrderingOp::LessThanEqual && o == Ordering::Equal);
}

/// K2: incomparable operands (None) satisfy only `!=`; comparable ones delegate.
#[kani::proof]
fn ordering_op_matches_opt__incomparable_only_ne() {
    let op = any_ordering_op();
    assert!(op.matches_opt(None) == (op == OrderingOp::NotEqual), "only != holds between unordered values");
    let o = any_ordering();
    assert!(op.matches_opt(Some(o)) == reference(op, o));
}

/// The operator applied to two i64 through their total order is the
/// mathematical comparison (this is what `partial_cmp` + `matches` gives and
/// what the generated `$op` closures must agree with).
#[kani::proof]
fn ordering_op_on_i64__mathematical() {
    let a: i64 = kani::any();
    let b: i64 = kani::any();
    let op = any_ordering_op();
    let want = match op {
        OrderingOp::Equal => a == b,
        OrderingOp::NotEqual => a != b,
        OrderingOp::GreaterThanEqual => a >= b,
        OrderingOp::LessThanEqual => a <= b,
        OrderingOp::GreaterThan => a > b,
        OrderingOp::LessThan => a < b,
    };
    assert!(op.matches_opt(a.strict_partial_cmp(&b)) == want);
    kani::cover!(a == i64::MIN && b == i64::MAX);
}
