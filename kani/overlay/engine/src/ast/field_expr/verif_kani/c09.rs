//! C09 obligations on the `in {...}` comparison objects compiled by
//! `ComparisonExpr::compile_with_compiler` (arm `OneOf` lifted mechanically, see
//! kani/extract_arms.py): the integer items, the per-family split of IP items and
//! the byte-string set.
use super::super::*;
use super::common::*;
use super::extracted;
use crate::execution_context::ExecutionContext;
use crate::lhs_types::Bytes;
use crate::rhs_types::{BytesFormat, IntRange, IpRange};
use crate::scheme::verif_kani::common::scheme_of;
use std::net::{IpAddr, Ipv4Addr, Ipv6Addr};

fn setup(ty: Type, probe: LhsValue<'static>) -> (Scheme, ()) {
    let scheme = scheme_of(&[(ty, false)], true);
    unsafe {
        PROBE = Some(probe);
    }
    (scheme, ())
}

/// `n in {r0 r1}` on integers: true iff some listed range contains n (both ranges and
/// n range over all of i64; unsorted / overlapping / nested / touching included).
#[kani::proof]
#[kani::unwind(5)]
#[kani::stub(crate::ast::index_expr::IndexExpr::compile_with, crate::ast::field_expr::verif_kani::common::compile_with__contract)]
fn compile_one_of_int__membership_n2() {
    let x: i64 = kani::any();
    let (scheme, _ctx) = setup(Type::Int, LhsValue::Int(x));
    let lo: [i64; 2] = kani::any();
    let hi: [i64; 2] = kani::any();
    kani::assume(lo[0] <= hi[0] && lo[1] <= hi[1]);
    let want = (lo[0] <= x && x <= hi[0]) || (lo[1] <= x && x <= hi[1]);
    if cfg!(test) {
        replay_check(
            Type::Int,
            true,
            || ComparisonOpExpr::OneOf(RhsValues::Int(vec![IntRange::from(lo[0]..=hi[0]), IntRange::from(lo[1]..=hi[1])])),
            LhsValue::Int(x),
            want,
            false,
        );
        return;
    }
    let values = RhsValues::Int(vec![IntRange::from(lo[0]..=hi[0]), IntRange::from(lo[1]..=hi[1])]);
    let compiled = extracted::arm_one_of(field_lhs(&scheme, 0), &mut NoCompiler, kani::any(), values);
    std::mem::forget(compiled);
    let want = (lo[0] <= x && x <= hi[0]) || (lo[1] <= x && x <= hi[1]);
    unsafe {
        assert!(REC_CALLS == 1 && REC_VEC_CALLS == 0);
        assert!(REC_RESULT == Some(want), "n in the brace list <=> some listed item equals or contains n");
        assert!(REC_DEFAULT == Some(false), "absent n: false");
    }
    kani::cover!(want && lo[0] > lo[1]);
    kani::cover!(!want);
    std::mem::forget(scheme);
}

/// Empty brace list: false for every n.
#[kani::proof]
#[kani::unwind(4)]
#[kani::stub(crate::ast::index_expr::IndexExpr::compile_with, crate::ast::field_expr::verif_kani::common::compile_with__contract)]
fn compile_one_of_int__empty_list_is_false() {
    let x: i64 = kani::any();
    let (scheme, _ctx) = setup(Type::Int, LhsValue::Int(x));
    if cfg!(test) {
        replay_check(Type::Int, true, || ComparisonOpExpr::OneOf(RhsValues::Int(Vec::new())), LhsValue::Int(x), false, false);
        return;
    }
    let compiled = extracted::arm_one_of(field_lhs(&scheme, 0), &mut NoCompiler, kani::any(), RhsValues::Int(Vec::new()));
    std::mem::forget(compiled);
    unsafe {
        assert!(REC_RESULT == Some(false), "empty list: false");
        assert!(REC_DEFAULT == Some(false));
    }
    std::mem::forget(scheme);
}

/// `ip in {item}` with a single explicit range item: an address belongs to the item
/// iff it is of the item's family and inside the range - an IPv4 address never
/// belongs to an IPv6 item and vice versa (including IPv4-mapped IPv6 addresses).
/// The two families are constants of each obligation; endpoints and probe are
/// symbolic over the whole address space.  (Lists of several items per family are
/// covered by the RangeSet obligations in `range_set::verif_kani::c09`.)
fn one_of_ip_body(x_is4: bool, item_is4: bool) {
    let x4: u32 = kani::any();
    let x6: u128 = kani::any();
    let x = if x_is4 { IpAddr::V4(Ipv4Addr::from(x4)) } else { IpAddr::V6(Ipv6Addr::from(x6)) };
    let (scheme, _ctx) = setup(Type::Ip, LhsValue::Ip(x));
    let (lo4, hi4): (u32, u32) = (kani::any(), kani::any());
    // IPv6 item endpoints are constants (symbolic ones make RangeSet::<Ipv6Addr>::from
    // exceed 15 min under CBMC); the IPv6 probe stays fully symbolic
    let (lo6, hi6): (u128, u128) = (0x2001_0db8_0000_0000_0000_0000_0000_0100, 0x2001_0db8_ffff_ffff_ffff_ffff_ffff_fffe);
    kani::assume(lo4 <= hi4);
    let item = if item_is4 {
        IpRange::Explicit(ExplicitIpRange::V4(Ipv4Addr::from(lo4)..=Ipv4Addr::from(hi4)))
    } else {
        IpRange::Explicit(ExplicitIpRange::V6(Ipv6Addr::from(lo6)..=Ipv6Addr::from(hi6)))
    };
    if cfg!(test) {
        let want = if x_is4 != item_is4 {
            false
        } else if x_is4 {
            lo4 <= x4 && x4 <= hi4
        } else {
            lo6 <= x6 && x6 <= hi6
        };
        replay_check(Type::Ip, true, || ComparisonOpExpr::OneOf(RhsValues::Ip(vec![item.clone()])), LhsValue::Ip(x), want, false);
        return;
    }
    let compiled = extracted::arm_one_of(field_lhs(&scheme, 0), &mut NoCompiler, kani::any(), RhsValues::Ip(vec![item]));
    std::mem::forget(compiled);
    let want = if x_is4 != item_is4 {
        false
    } else if x_is4 {
        lo4 <= x4 && x4 <= hi4
    } else {
        lo6 <= x6 && x6 <= hi6
    };
    unsafe {
        assert!(REC_CALLS == 1 && REC_VEC_CALLS == 0);
        assert!(REC_RESULT == Some(want), "an address belongs only to items of its own family that contain it");
        assert!(REC_DEFAULT == Some(false), "absent address: false");
    }
    if x_is4 == item_is4 {
        kani::cover!(want);
    }
    kani::cover!(!want);
    std::mem::forget(scheme);
}

macro_rules! ip_case {
    ($name:ident, $unwind:literal, $x4:literal, $i4:literal) => {
        #[kani::proof]
        #[kani::unwind($unwind)]
        #[kani::stub(crate::ast::index_expr::IndexExpr::compile_with, crate::ast::field_expr::verif_kani::common::compile_with__contract)]
        fn $name() {
            one_of_ip_body($x4, $i4)
        }
    };
}
ip_case!(compile_one_of_ip__v4_probe_v4_item, 6, true, true);
ip_case!(compile_one_of_ip__v4_probe_v6_item, 6, true, false);
ip_case!(compile_one_of_ip__v6_probe_v4_item, 18, false, true);
ip_case!(compile_one_of_ip__v6_probe_v6_item, 18, false, false);

/// `b in {}` on byte strings: an empty brace list is false for every b, and an absent
/// b is false (the default handed to `compile_with`).  Membership in a NON-empty
/// `BTreeSet<Box<[u8]>>` is not decided here: building one entry exceeds 22 GB under CBMC.
#[kani::proof]
#[kani::unwind(4)]
#[kani::stub(crate::ast::index_expr::IndexExpr::compile_with, crate::ast::field_expr::verif_kani::common::compile_with__contract)]
fn compile_one_of_bytes__empty_list_and_absent_are_false() {
    static XB: [u8; 2] = [0x61, 0xff];
    let xlen: usize = kani::any();
    kani::assume(xlen <= 2);
    if cfg!(test) {
        replay_check(Type::Bytes, true, || ComparisonOpExpr::OneOf(RhsValues::Bytes(Vec::new())), LhsValue::Bytes(Bytes::Borrowed(&XB[..xlen])), false, false);
        return;
    }
    let (scheme, _ctx) = setup(Type::Bytes, LhsValue::Bytes(Bytes::Borrowed(&XB[..xlen])));
    let compiled = extracted::arm_one_of(field_lhs(&scheme, 0), &mut NoCompiler, kani::any(), RhsValues::Bytes(Vec::new()));
    std::mem::forget(compiled);
    unsafe {
        assert!(REC_CALLS == 1 && REC_VEC_CALLS == 0);
        assert!(REC_RESULT == Some(false), "empty list: false");
        assert!(REC_DEFAULT == Some(false), "absent b: false");
    }
    std::mem::forget(scheme);
}
