//! C04 obligations: the operator-admissibility matrix of
//! `ComparisonExpr::lex_with_lhs` (left type x every operator).
//!
//! Expected outcomes are written from the property's typing table:
//!   Int   : in, the 6 ordering operators, bitwise and
//!   Ip    : in, ordering
//!   Bytes : in, ordering, contains, matches, wildcard, strict wildcard
//!   Bool, Array(Bool), Map(Bool) : no operator at all - the bare left side is the
//!           comparison (IsTrue) and no input is consumed
//!   every other container : nothing
//! A trailing `[*]` makes the ELEMENT type decide.
//!
//! Modular split (measured: one failed `expect()` of the real operator lexer costs ~4 s
//! of symbolic execution because the drop glue of `LexErrorKind` is explored with an
//! unfolded tag; `strict wildcard` is the 20th spelling tried; every error return of
//! `lex_with_lhs` drops the left-hand side, whose drop glue is explored through the
//! function-call variant of `IdentifierExpr`: ~80 s per call):
//!   (A) `spelling_table__*`: the REAL `ComparisonOp::lex` maps each of the 20 spellings
//!       to its operator and consumes exactly the spelling (one spelling per obligation);
//!   (B) `row_<type>::op_<operator>`: the REAL `lex_with_lhs`, one (left type, operator)
//!       cell per obligation, with its callees replaced by their contracts:
//!       `ComparisonOp::lex` (contract = (A)), `IndexExpr::get_type` (discharged in
//!       ast::index_expr::verif_kani::c04), the leaf literal lexers, `lex_rhs_values`,
//!       `ListName::lex`, `Scheme::get_list`.  The text after the operator is `!`, which
//!       is malformed for every type, so an admissible pair ends in the literal lexer's
//!       error (kind != UnsupportedOp) - and the obligation also checks that the literal
//!       lexer entered is the one of the LEFT-HAND TYPE - and an inadmissible pair ends
//!       in UnsupportedOp{lhs_type};
//!   (C) `bare_boolean__*`, `in_list__*`: the IsTrue rule and `in $list` without a list.
//! Not registered (no result): `row_bytes::op_none` (500 s, twice) - see C04.toml.
use super::super::*;
use super::common::{index_expr_get_type__contract, LHS_TYPE};
use crate::ast::index_expr::IndexExpr;
use crate::ast::parse::FilterParser;
use crate::lex::verif_kani::common::is_suffix_at;
use crate::scheme::verif_kani::common::{field, scheme_of};
use crate::scheme::FieldIndex;

// ---------------------------------------------------------------------------
// (A) spelling table of the real operator lexer

/// The real `ComparisonOp::lex` on `input` gives `op` and consumes exactly `len` bytes.
fn lexes_to(input: &'static str, op: ComparisonOp, len: usize) -> bool {
    let r = ComparisonOp::lex(input);
    let ok = match &r {
        Ok((o, rest)) => *o == op && is_suffix_at(input, rest, len),
        Err(_) => false,
    };
    std::mem::forget(r);
    ok
}

fn is_no_operator(input: &'static str) -> bool {
    let r = ComparisonOp::lex(input);
    let ok = match &r {
        Ok(_) => false,
        Err((_, at)) => is_suffix_at(input, at, 0),
    };
    std::mem::forget(r);
    ok
}

macro_rules! spelling_table {
    ($name:ident, $unwind:literal, $( $text:literal => $op:expr, $len:literal; )+) => {
        #[kani::proof]
        #[kani::unwind($unwind)]
        #[kani::solver(minisat)]
        #[kani::stub(std::mem::drop, crate::ast::field_expr::verif_kani::common::mem_drop__leak)]
        fn $name() {
            $( assert!(lexes_to($text, $op, $len), $text); )+
            kani::cover!(true, "table completed");
        }
    };
}

use ComparisonOp as Op;
spelling_table!(spelling_table__in_eq_ne, 6,
    "in !" => Op::In, 2;
    "eq !" => Op::Ordering(OrderingOp::Equal), 2;
    "== !" => Op::Ordering(OrderingOp::Equal), 2;
    "ne !" => Op::Ordering(OrderingOp::NotEqual), 2;
    "!= !" => Op::Ordering(OrderingOp::NotEqual), 2;
);
// one spelling per obligation from here on: the k-th spelling tried costs k failed
// `expect`s (groups of 3-4 did not finish in 500 s on a loaded machine)
spelling_table!(spelling_table__word_ge, 6, "ge !" => Op::Ordering(OrderingOp::GreaterThanEqual), 2;);
spelling_table!(spelling_table__symbol_ge, 6, ">= !" => Op::Ordering(OrderingOp::GreaterThanEqual), 2;);
spelling_table!(spelling_table__word_le, 6, "le !" => Op::Ordering(OrderingOp::LessThanEqual), 2;);
spelling_table!(spelling_table__symbol_le, 6, "<= !" => Op::Ordering(OrderingOp::LessThanEqual), 2;);
spelling_table!(spelling_table__word_gt, 6, "gt !" => Op::Ordering(OrderingOp::GreaterThan), 2;);
spelling_table!(spelling_table__symbol_gt, 6, "> !" => Op::Ordering(OrderingOp::GreaterThan), 1;);
spelling_table!(spelling_table__word_lt, 6, "lt !" => Op::Ordering(OrderingOp::LessThan), 2;);
spelling_table!(spelling_table__symbol_lt, 6, "< !" => Op::Ordering(OrderingOp::LessThan), 1;);
spelling_table!(spelling_table__symbol_bitwise_and, 6, "& !" => Op::Int(IntOp::BitwiseAnd), 1;);
spelling_table!(spelling_table__word_bitwise_and, 14, "bitwise_and !" => Op::Int(IntOp::BitwiseAnd), 11;);
spelling_table!(spelling_table__word_contains, 12, "contains !" => Op::Bytes(BytesOp::Contains), 8;);
spelling_table!(spelling_table__symbol_matches, 6, "~ !" => Op::Bytes(BytesOp::Matches), 1;);
spelling_table!(spelling_table__word_matches, 10, "matches !" => Op::Bytes(BytesOp::Matches), 7;);
spelling_table!(spelling_table__word_wildcard, 12,
    "wildcard !" => Op::Bytes(BytesOp::Wildcard), 8;
);
spelling_table!(spelling_table__word_strict_wildcard, 20,
    "strict wildcard !" => Op::Bytes(BytesOp::StrictWildcard), 15;
);

/// Anything else is not an operator (error located at the start of the text).
#[kani::proof]
#[kani::unwind(4)]
#[kani::solver(minisat)]
#[kani::stub(std::mem::drop, crate::ast::field_expr::verif_kani::common::mem_drop__leak)]
fn spelling_table__not_an_operator() {
    assert!(is_no_operator("!"));
    kani::cover!(true, "table completed");
}

#[kani::proof]
#[kani::unwind(4)]
#[kani::solver(minisat)]
#[kani::stub(std::mem::drop, crate::ast::field_expr::verif_kani::common::mem_drop__leak)]
fn spelling_table__end_of_input_is_not_an_operator() {
    assert!(is_no_operator(""));
    kani::cover!(true, "table completed");
}

// ---------------------------------------------------------------------------
// (B) admissibility matrix of the real `lex_with_lhs`

/// What the stubbed operator lexer returns next: the operator and the length of its
/// spelling (None: the text is not an operator).  Plain values only.
pub(crate) static mut NEXT_OP: Option<(ComparisonOp, usize)> = None;

/// Contract of `<ComparisonOp as Lex>::lex`, discharged on the real function by the
/// `spelling_table__*` obligations above: when the input starts with a spelling of
/// `op`, `Ok((op, input minus that spelling))`; when it starts with no spelling,
/// `Err((ExpectedName(..), input))`.  The harness fixes which of the two applies and
/// gives an input that really starts with that spelling.
// (`where 'i: 'i` makes the lifetime early-bound, as the impl's `'i` is: Kani compares
// the number of generic parameters)
pub(crate) fn comparison_op_lex__contract<'i>(input: &'i str) -> LexResult<'i, ComparisonOp>
where
    'i: 'i,
{
    match unsafe { NEXT_OP } {
        Some((op, len)) => Ok((op, &input[len..])),
        None => Err((LexErrorKind::ExpectedName("ComparisonOp"), input)),
    }
}

/// The type of the literal lexer that `lex_with_lhs` entered last (None: none).
pub(crate) static mut REC_LITERAL: Option<Type> = None;

// Contracts of the leaf literal lexers on the text `!`, which is not a literal of any
// type: an error that is not a typing error, located at the text (the literal lexers
// themselves are C06's obligations; the errors below are the ones the real functions give
// on `!`).  Each records the type it lexes: the literal must be lexed AS THE LEFT-HAND
// TYPE - the "literal compatibility" clause.  The dispatch on the type
// (`RhsValue::lex_with`, `RhsValues::lex_with`, `lex_rhs_values`) stays real.
// (Measured: with the real Ip / Int lexers behind an unfolded tag one admissible cell
// costs 265 - >400 s.)  `where 'i: 'i`: see above.
pub(crate) fn i64_lex__contract<'i>(input: &str) -> LexResult<'_, i64>
where
    'i: 'i,
{
    unsafe {
        REC_LITERAL = Some(Type::Int);
    }
    Err((LexErrorKind::ExpectedName("digit"), input))
}

pub(crate) fn ip_addr_lex__contract<'i>(input: &str) -> LexResult<'_, std::net::IpAddr>
where
    'i: 'i,
{
    unsafe {
        REC_LITERAL = Some(Type::Ip);
    }
    Err((LexErrorKind::ExpectedName("IP address character"), input))
}

pub(crate) fn ip_range_lex__contract<'i>(input: &str) -> LexResult<'_, crate::rhs_types::IpRange>
where
    'i: 'i,
{
    unsafe {
        REC_LITERAL = Some(Type::Ip);
    }
    Err((LexErrorKind::ExpectedName("IP address character"), input))
}

pub(crate) fn bytes_expr_lex__contract<'i>(input: &str) -> LexResult<'_, BytesExpr>
where
    'i: 'i,
{
    unsafe {
        REC_LITERAL = Some(Type::Bytes);
    }
    Err((LexErrorKind::CountMismatch { name: "character", actual: 1, expected: 2 }, input))
}

/// Whether the `{...}` set lexer was entered.
pub(crate) static mut REC_SET: bool = false;

/// Contract of `types::lex_rhs_values::<T>` on a text that does not start with `{`:
/// `Err((ExpectedLiteral("{"), input))`.  The dispatch from the left-hand type to `T`
/// (`RhsValues::lex_with`) stays real.  (Measured: the real loop, its `Vec<T>` and their
/// drop glue behind unfolded tags make the `in` cell cost ~380 s.)
pub(crate) fn lex_rhs_values__contract<'i, T: Lex<'i>>(input: &'i str) -> LexResult<'i, Vec<T>> {
    unsafe {
        REC_SET = true;
    }
    Err((LexErrorKind::ExpectedLiteral("{"), input))
}

/// What the stubbed list-name lexer does: false = the text does not start with `$`
/// (`Err(ExpectedLiteral("$"))`, what the real one gives on such a text), true = the
/// text is `$x...` (`Ok(("x", rest after 2 bytes))`).
pub(crate) static mut LIST_NAME_PRESENT: bool = false;

/// Contract of `<ListName as Lex>::lex` for those two texts (the real one is C17's
/// business).
pub(crate) fn list_name_lex__contract<'i>(input: &str) -> LexResult<'_, ListName>
where
    'i: 'i,
{
    if unsafe { LIST_NAME_PRESENT } {
        Ok((ListName::from(String::from("x")), &input[2..]))
    } else {
        Err((LexErrorKind::ExpectedLiteral("$"), input))
    }
}

/// Contract of `Scheme::get_list` for the schemes built here, which register no list:
/// no list for any type.  (The real one is a `HashMap` lookup, out of CBMC's reach.)
pub(crate) fn scheme_get_list__no_lists<'s, 'a>(_this: &'a Scheme, _ty: &Type) -> Option<crate::scheme::ListRef<'a>>
where
    's: 's,
{
    None
}

#[derive(Clone, Copy, PartialEq, Eq)]
enum Outcome {
    /// Ok(IsTrue) with the whole input left
    IsTrueNothingConsumed,
    /// Ok(anything else)
    Accepted,
    /// Err(UnsupportedOp { lhs_type }) with lhs_type == the type given
    Unsupported,
    /// Err(UnsupportedOp { some other type })
    UnsupportedWrongType,
    /// any other error kind (the operator was admitted, the literal is malformed)
    LiteralError,
}

/// Calls the real `lex_with_lhs` on `f <input>` (or `f[*] <input>`), where `f` is
/// field 0 of `scheme`; `reported` is the type an UnsupportedOp error must name.
fn outcome(input: &'static str, op: Option<(ComparisonOp, usize)>, scheme: &Scheme, each: bool, reported: Type) -> Outcome {
    unsafe {
        NEXT_OP = op;
    }
    let parser = FilterParser::new(scheme);
    let lhs = IndexExpr {
        identifier: IdentifierExpr::Field(field(scheme, 0)),
        indexes: if each { vec![FieldIndex::MapEach] } else { Vec::new() },
    };
    match ComparisonExpr::lex_with_lhs(input, &parser, lhs) {
        Ok((c, rest)) => {
            let o = if matches!(&c.op, ComparisonOpExpr::IsTrue) && std::ptr::eq(rest, input) {
                Outcome::IsTrueNothingConsumed
            } else {
                Outcome::Accepted
            };
            std::mem::forget(c);
            o
        }
        Err((kind, at)) => {
            // the error span is a sub-slice of the input (what ParseError::new requires)
            let lo = input.as_ptr() as usize;
            let a = at.as_ptr() as usize;
            assert!(lo <= a && a + at.len() <= lo + input.len(), "the error span lies inside the input");
            let o = match &kind {
                LexErrorKind::UnsupportedOp { lhs_type } => {
                    if *lhs_type == reported {
                        Outcome::Unsupported
                    } else {
                        Outcome::UnsupportedWrongType
                    }
                }
                _ => Outcome::LiteralError,
            };
            std::mem::forget(kind);
            o
        }
    }
}

/// One cell of the matrix = one obligation (measured: one call of `lex_with_lhs` costs
/// 80-130 s, almost all of it the drop glue of the left-hand side on the error path,
/// which CBMC explores through the function-call variant of `IdentifierExpr`; a
/// symbolic operator covering a whole row did not finish in 500 s).
/// The text is ` ~ !`: the contract stub of the operator lexer consumes the one-byte operator and
/// hands over `$op` - the spelling itself is (A)'s business.  `$literal` is the type of
/// the literal the operator takes per the table (None: not a typed literal).
macro_rules! cell {
    ($name:ident, $decl:expr, $each:expr, $eff:expr, $op:expr, $admissible:expr, $literal:expr) => {
        #[kani::proof]
        #[kani::unwind(4)]
        #[kani::solver(minisat)]
        #[kani::stub(crate::rhs_types::regex::Regex::new, crate::ast::field_expr::verif_kani::common::regex_new__must_not_be_reached)]
        #[kani::stub(std::mem::drop, crate::ast::field_expr::verif_kani::common::mem_drop__leak)]
        #[kani::stub(<crate::ast::field_expr::ComparisonOp as crate::lex::Lex>::lex, crate::ast::field_expr::verif_kani::c04::comparison_op_lex__contract)]
        #[kani::stub(<i64 as crate::lex::Lex>::lex, crate::ast::field_expr::verif_kani::c04::i64_lex__contract)]
        #[kani::stub(<std::net::IpAddr as crate::lex::Lex>::lex, crate::ast::field_expr::verif_kani::c04::ip_addr_lex__contract)]
        #[kani::stub(<crate::rhs_types::IpRange as crate::lex::Lex>::lex, crate::ast::field_expr::verif_kani::c04::ip_range_lex__contract)]
        #[kani::stub(<crate::rhs_types::BytesExpr as crate::lex::Lex>::lex, crate::ast::field_expr::verif_kani::c04::bytes_expr_lex__contract)]
        #[kani::stub(crate::scheme::Scheme::get_list, crate::ast::field_expr::verif_kani::c04::scheme_get_list__no_lists)]
        #[kani::stub(crate::types::lex_rhs_values, crate::ast::field_expr::verif_kani::c04::lex_rhs_values__contract)]
        #[kani::stub(<crate::rhs_types::ListName as crate::lex::Lex>::lex, crate::ast::field_expr::verif_kani::c04::list_name_lex__contract)]
        #[kani::stub(<crate::ast::index_expr::IndexExpr as crate::types::GetType>::get_type, crate::ast::field_expr::verif_kani::common::index_expr_get_type__contract)]
        fn $name() {
            let scheme = scheme_of(&[($decl, false)], true);
            unsafe {
                LHS_TYPE = Some($eff);
            }
            let op: Option<ComparisonOp> = $op;
            unsafe {
                REC_LITERAL = None;
            }
            unsafe {
                REC_SET = false;
                LIST_NAME_PRESENT = false;
            }
            let got = outcome(" ~ !", op.map(|op| (op, 1)), &scheme, $each, $eff);
            let want = if $admissible { Outcome::LiteralError } else { Outcome::Unsupported };
            assert!(got == want, "operator / left-type compatibility per the typing table");
            let literal: Option<Type> = $literal;
            let want_literal = if $admissible { literal } else { None };
            assert!(unsafe { REC_LITERAL } == want_literal, "the literal is lexed as the type the table says");
            // only an admissible `in` (without `$`) goes to the `{...}` set lexer
            assert!(unsafe { REC_SET } == ($admissible && matches!(op, Some(Op::In))), "a set of literals after `in` only");
            kani::cover!(true, "cell decided");
            std::mem::forget(scheme);
        }
    };
}

/// One row = one left-hand type; `$in/$ord/$int/$bytes` is the admissibility of the four
/// operator classes for the EFFECTIVE type `$eff` per the table at the top.  "No
/// operator" is a parse error but never a typing error.
macro_rules! operator_matrix {
    ($row:ident, $decl:expr, $each:expr, $eff:expr, $in:expr, $ord:expr, $int:expr, $bytes:expr) => {
        pub(crate) mod $row {
            use super::*;
            cell!(op_in, $decl, $each, $eff, Some(Op::In), $in, None);
            cell!(op_eq, $decl, $each, $eff, Some(Op::Ordering(OrderingOp::Equal)), $ord, Some($eff));
            cell!(op_ne, $decl, $each, $eff, Some(Op::Ordering(OrderingOp::NotEqual)), $ord, Some($eff));
            cell!(op_ge, $decl, $each, $eff, Some(Op::Ordering(OrderingOp::GreaterThanEqual)), $ord, Some($eff));
            cell!(op_le, $decl, $each, $eff, Some(Op::Ordering(OrderingOp::LessThanEqual)), $ord, Some($eff));
            cell!(op_gt, $decl, $each, $eff, Some(Op::Ordering(OrderingOp::GreaterThan)), $ord, Some($eff));
            cell!(op_lt, $decl, $each, $eff, Some(Op::Ordering(OrderingOp::LessThan)), $ord, Some($eff));
            cell!(op_bitwise_and, $decl, $each, $eff, Some(Op::Int(IntOp::BitwiseAnd)), $int, Some(Type::Int));
            cell!(op_contains, $decl, $each, $eff, Some(Op::Bytes(BytesOp::Contains)), $bytes, Some(Type::Bytes));
            cell!(op_matches, $decl, $each, $eff, Some(Op::Bytes(BytesOp::Matches)), $bytes, None);
            cell!(op_wildcard, $decl, $each, $eff, Some(Op::Bytes(BytesOp::Wildcard)), $bytes, None);
            cell!(op_strict_wildcard, $decl, $each, $eff, Some(Op::Bytes(BytesOp::StrictWildcard)), $bytes, None);
            cell!(op_none, $decl, $each, $eff, None, true, None);
        }
    };
}

//                row               declared type                       [*]    effective type                      in     ord    int    bytes
operator_matrix!(row_int,           Type::Int,                          false, Type::Int,                          true,  true,  true,  false);
operator_matrix!(row_ip,            Type::Ip,                           false, Type::Ip,                           true,  true,  false, false);
operator_matrix!(row_bytes,         Type::Bytes,                        false, Type::Bytes,                        true,  true,  false, true);
operator_matrix!(row_array_int,     Type::Array(Type::Int.into()),      false, Type::Array(Type::Int.into()),      false, false, false, false);
operator_matrix!(row_map_bytes,     Type::Map(Type::Bytes.into()),      false, Type::Map(Type::Bytes.into()),      false, false, false, false);
// `[*]`: the element type decides
operator_matrix!(row_array_int_each, Type::Array(Type::Int.into()),     true,  Type::Int,                          true,  true,  true,  false);
operator_matrix!(row_map_bytes_each, Type::Map(Type::Bytes.into()),     true,  Type::Bytes,                        true,  true,  false, true);
operator_matrix!(row_array_array_int_each, Type::Array(Type::Array(Type::Int.into()).into()), true, Type::Array(Type::Int.into()), false, false, false, false);

// ---------------------------------------------------------------------------
// Bool and containers of Bool: the bare left side IS the comparison.

macro_rules! bare_boolean {
    ($name:ident, $decl:expr, $each:expr, $eff:expr, $want:expr, $reported:expr) => {
        #[kani::proof]
        #[kani::unwind(4)]
        #[kani::solver(minisat)]
        #[kani::stub(crate::rhs_types::regex::Regex::new, crate::ast::field_expr::verif_kani::common::regex_new__must_not_be_reached)]
        #[kani::stub(std::mem::drop, crate::ast::field_expr::verif_kani::common::mem_drop__leak)]
        #[kani::stub(<crate::ast::field_expr::ComparisonOp as crate::lex::Lex>::lex, crate::ast::field_expr::verif_kani::c04::comparison_op_lex__contract)]
        #[kani::stub(<i64 as crate::lex::Lex>::lex, crate::ast::field_expr::verif_kani::c04::i64_lex__contract)]
        #[kani::stub(<std::net::IpAddr as crate::lex::Lex>::lex, crate::ast::field_expr::verif_kani::c04::ip_addr_lex__contract)]
        #[kani::stub(<crate::rhs_types::IpRange as crate::lex::Lex>::lex, crate::ast::field_expr::verif_kani::c04::ip_range_lex__contract)]
        #[kani::stub(<crate::rhs_types::BytesExpr as crate::lex::Lex>::lex, crate::ast::field_expr::verif_kani::c04::bytes_expr_lex__contract)]
        #[kani::stub(crate::scheme::Scheme::get_list, crate::ast::field_expr::verif_kani::c04::scheme_get_list__no_lists)]
        #[kani::stub(crate::types::lex_rhs_values, crate::ast::field_expr::verif_kani::c04::lex_rhs_values__contract)]
        #[kani::stub(<crate::rhs_types::ListName as crate::lex::Lex>::lex, crate::ast::field_expr::verif_kani::c04::list_name_lex__contract)]
        #[kani::stub(<crate::ast::index_expr::IndexExpr as crate::types::GetType>::get_type, crate::ast::field_expr::verif_kani::common::index_expr_get_type__contract)]
        fn $name() {
            let scheme = scheme_of(&[($decl, false)], true);
            unsafe {
                LHS_TYPE = Some($eff);
            }
            // an operator follows in the text: it must be left alone
            let got = outcome(" ~ !", Some((Op::Ordering(OrderingOp::Equal), 1)), &scheme, $each, $reported);
            assert!(got == $want, "a boolean (or container of booleans) left side takes no operator");
            kani::cover!(true, "case decided");
            std::mem::forget(scheme);
        }
    };
}

bare_boolean!(bare_boolean__bool, Type::Bool, false, Type::Bool, Outcome::IsTrueNothingConsumed, Type::Bool);
bare_boolean!(bare_boolean__array_bool, Type::Array(Type::Bool.into()), false, Type::Array(Type::Bool.into()), Outcome::IsTrueNothingConsumed, Type::Bool);
bare_boolean!(bare_boolean__map_bool, Type::Map(Type::Bool.into()), false, Type::Map(Type::Bool.into()), Outcome::IsTrueNothingConsumed, Type::Bool);
bare_boolean!(bare_boolean__array_bool_each, Type::Array(Type::Bool.into()), true, Type::Bool, Outcome::IsTrueNothingConsumed, Type::Bool);
bare_boolean!(bare_boolean__map_bool_each, Type::Map(Type::Bool.into()), true, Type::Bool, Outcome::IsTrueNothingConsumed, Type::Bool);
// f[*] over Array(Array(Bool)) would be an array of boolean arrays: refused, naming that type
bare_boolean!(
    bare_boolean__array_array_bool_each_is_refused,
    Type::Array(Type::Array(Type::Bool.into()).into()),
    true,
    Type::Array(Type::Bool.into()),
    Outcome::Unsupported,
    Type::Array(Type::Array(Type::Bool.into()).into())
);
bare_boolean!(
    bare_boolean__map_array_bool_each_is_refused,
    Type::Map(Type::Array(Type::Bool.into()).into()),
    true,
    Type::Array(Type::Bool.into()),
    Outcome::Unsupported,
    Type::Array(Type::Array(Type::Bool.into()).into())
);

// ---------------------------------------------------------------------------
// `in $name` when the scheme has no list for the left-hand type

/// `f in $x` where no list is registered for f's type: UnsupportedOp naming that type.
#[kani::proof]
#[kani::unwind(4)]
#[kani::solver(minisat)]
#[kani::stub(crate::rhs_types::regex::Regex::new, crate::ast::field_expr::verif_kani::common::regex_new__must_not_be_reached)]
#[kani::stub(std::mem::drop, crate::ast::field_expr::verif_kani::common::mem_drop__leak)]
#[kani::stub(<crate::ast::field_expr::ComparisonOp as crate::lex::Lex>::lex, crate::ast::field_expr::verif_kani::c04::comparison_op_lex__contract)]
#[kani::stub(<i64 as crate::lex::Lex>::lex, crate::ast::field_expr::verif_kani::c04::i64_lex__contract)]
#[kani::stub(<std::net::IpAddr as crate::lex::Lex>::lex, crate::ast::field_expr::verif_kani::c04::ip_addr_lex__contract)]
#[kani::stub(<crate::rhs_types::IpRange as crate::lex::Lex>::lex, crate::ast::field_expr::verif_kani::c04::ip_range_lex__contract)]
#[kani::stub(<crate::rhs_types::BytesExpr as crate::lex::Lex>::lex, crate::ast::field_expr::verif_kani::c04::bytes_expr_lex__contract)]
#[kani::stub(crate::scheme::Scheme::get_list, crate::ast::field_expr::verif_kani::c04::scheme_get_list__no_lists)]
#[kani::stub(crate::types::lex_rhs_values, crate::ast::field_expr::verif_kani::c04::lex_rhs_values__contract)]
#[kani::stub(<crate::rhs_types::ListName as crate::lex::Lex>::lex, crate::ast::field_expr::verif_kani::c04::list_name_lex__contract)]
#[kani::stub(<crate::ast::index_expr::IndexExpr as crate::types::GetType>::get_type, crate::ast::field_expr::verif_kani::common::index_expr_get_type__contract)]
fn in_list__no_list_for_the_type() {
    let scheme = scheme_of(&[(Type::Int, false)], true);
    unsafe {
        LHS_TYPE = Some(Type::Int);
        REC_SET = false;
        LIST_NAME_PRESENT = true;
    }
    let got = outcome(" ~ $x", Some((Op::In, 1)), &scheme, false, Type::Int);
    assert!(got == Outcome::Unsupported, "`in $list` needs a list registered for the left-hand type");
    assert!(!unsafe { REC_SET });
    kani::cover!(true, "case decided");
    std::mem::forget(scheme);
}
