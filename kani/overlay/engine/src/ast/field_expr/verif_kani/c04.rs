//! C04 obligations: the operator-admissibility matrix of
//! `ComparisonExpr::lex_with_lhs` (left type x every operator spelling).
//!
//! The literal after the operator is `!`, which is malformed for every type,
//! so an admissible pair ends in the literal lexer's error (kind !=
//! UnsupportedOp) and an inadmissible one in UnsupportedOp{lhs_type}.
use super::super::*;
use crate::ast::index_expr::IndexExpr;
use crate::ast::parse::FilterParser;
use crate::scheme::verif_kani::common::{field, scheme_of};
use crate::scheme::FieldIndex;

#[derive(Clone, Copy, PartialEq)]
enum Class {
    In,
    Ordering,
    IntOnly,
    BytesOnly,
}

const SPELLINGS: [(&str, Class); 20] = [
    ("in !", Class::In),
    ("eq !", Class::Ordering),
    ("== !", Class::Ordering),
    ("ne !", Class::Ordering),
    ("!= !", Class::Ordering),
    ("ge !", Class::Ordering),
    (">= !", Class::Ordering),
    ("le !", Class::Ordering),
    ("<= !", Class::Ordering),
    ("gt !", Class::Ordering),
    ("> !", Class::Ordering),
    ("lt !", Class::Ordering),
    ("< !", Class::Ordering),
    ("& !", Class::IntOnly),
    ("bitwise_and !", Class::IntOnly),
    ("contains !", Class::BytesOnly),
    ("~ !", Class::BytesOnly),
    ("matches !", Class::BytesOnly),
    ("wildcard !", Class::BytesOnly),
    ("strict wildcard !", Class::BytesOnly),
];

/// Pool of left-hand types: 0 Int, 1 Ip, 2 Bytes, 3 Array(Int), 4 Map(Bytes),
/// 5 Array(Array(Int)).
fn lhs_type(k: usize) -> Type {
    match k {
        0 => Type::Int,
        1 => Type::Ip,
        2 => Type::Bytes,
        3 => Type::Array(Type::Int.into()),
        4 => Type::Map(Type::Bytes.into()),
        _ => Type::Array(Type::Array(Type::Int.into()).into()),
    }
}

fn admissible(t: &Type, c: Class) -> bool {
    match (t, c) {
        (Type::Int, Class::In | Class::Ordering | Class::IntOnly) => true,
        (Type::Ip, Class::In | Class::Ordering) => true,
        (Type::Bytes, Class::In | Class::Ordering | Class::BytesOnly) => true,
        _ => false,
    }
}

/// For left type K (optionally with one trailing [*], which maps the element
/// type): every operator spelling is accepted exactly per the typing table.
fn operator_matrix<const K: usize, const EACH: bool>() {
    let scheme = scheme_of(&[(lhs_type(K), false)], true);
    let parser = FilterParser::new(&scheme);
    let lhs = IndexExpr {
        identifier: IdentifierExpr::Field(field(&scheme, 0)),
        indexes: if EACH { vec![FieldIndex::MapEach] } else { Vec::new() },
    };
    let effective = lhs.get_type();
    let which: usize = kani::any();
    kani::assume(which < SPELLINGS.len());
    let (text, class) = SPELLINGS[which];
    match ComparisonExpr::lex_with_lhs(text, &parser, lhs) {
        Ok(x) => {
            std::mem::forget(x);
            assert!(false, "`!` is not a literal of any type");
        }
        Err((kind, _)) => {
            let unsupported = matches!(&kind, LexErrorKind::UnsupportedOp { lhs_type } if *lhs_type == effective);
            let other_unsupported = matches!(&kind, LexErrorKind::UnsupportedOp { .. }) && !unsupported;
            assert!(!other_unsupported, "UnsupportedOp reports the left-hand type");
            assert!(unsupported == !admissible(&effective, class), "operator / left-type compatibility per the typing table");
            kani::cover!(unsupported);
            kani::cover!(!unsupported);
            std::mem::forget(kind);
        }
    }
    std::mem::forget(scheme);
}

#[kani::proof]
#[kani::unwind(22)]
fn operator_matrix__int() {
    operator_matrix::<0, false>()
}

#[kani::proof]
#[kani::unwind(22)]
fn operator_matrix__ip() {
    operator_matrix::<1, false>()
}

#[kani::proof]
#[kani::unwind(22)]
fn operator_matrix__bytes() {
    operator_matrix::<2, false>()
}

#[kani::proof]
#[kani::unwind(22)]
fn operator_matrix__array_int() {
    operator_matrix::<3, false>()
}

#[kani::proof]
#[kani::unwind(22)]
fn operator_matrix__array_int_each() {
    operator_matrix::<3, true>()
}

#[kani::proof]
#[kani::unwind(22)]
fn operator_matrix__map_bytes_each() {
    operator_matrix::<4, true>()
}

#[kani::proof]
#[kani::unwind(22)]
fn operator_matrix__array_array_int_each() {
    operator_matrix::<5, true>()
}

/// Bool and containers of Bool: a bare field is accepted as IsTrue without
/// consuming input; Array(Array(Bool))[*] would give nested bool arrays and
/// is refused.
#[kani::proof]
#[kani::unwind(6)]
fn bool_lhs__is_true_without_consuming() {
    let bools = Type::Array(Type::Bool.into());
    let nested = Type::Array(bools.into());
    let scheme = scheme_of(&[(Type::Bool, false), (bools, false), (nested, false)], true);
    let parser = FilterParser::new(&scheme);
    let input = " == 1";
    // Bool
    let lhs = IndexExpr { identifier: IdentifierExpr::Field(field(&scheme, 0)), indexes: Vec::new() };
    match ComparisonExpr::lex_with_lhs(input, &parser, lhs) {
        Ok((c, rest)) => {
            assert!(c.op == ComparisonOpExpr::IsTrue && std::ptr::eq(rest, input), "a bare boolean field is the comparison");
            std::mem::forget(c);
        }
        Err(e) => {
            std::mem::forget(e);
            assert!(false);
        }
    }
    // Array(Bool), and Array(Bool)[*]
    let each: bool = kani::any();
    let lhs = IndexExpr {
        identifier: IdentifierExpr::Field(field(&scheme, 1)),
        indexes: if each { vec![FieldIndex::MapEach] } else { Vec::new() },
    };
    match ComparisonExpr::lex_with_lhs(input, &parser, lhs) {
        Ok((c, rest)) => {
            assert!(c.op == ComparisonOpExpr::IsTrue && std::ptr::eq(rest, input));
            std::mem::forget(c);
        }
        Err(e) => {
            std::mem::forget(e);
            assert!(false);
        }
    }
    // Array(Array(Bool))[*]
    let lhs = IndexExpr { identifier: IdentifierExpr::Field(field(&scheme, 2)), indexes: vec![FieldIndex::MapEach] };
    let r = ComparisonExpr::lex_with_lhs(input, &parser, lhs);
    assert!(matches!(&r, Err((LexErrorKind::UnsupportedOp { .. }, _))), "nested boolean arrays cannot be compared");
    std::mem::forget(r);
    std::mem::forget(scheme);
}
