//! C04 obligations: the operator-admissibility matrix of
//! `ComparisonExpr::lex_with_lhs` (left type x every operator spelling).
//!
//! Expected outcomes are written from the property's typing table:
//!   Int   : in, the 12 ordering spellings, `&` / `bitwise_and`
//!   Ip    : in, ordering
//!   Bytes : in, ordering, contains, `~` / matches, wildcard, strict wildcard
//!   Bool, Array(Bool), Map(Bool) : no operator at all - the bare left side is the
//!           comparison (IsTrue) and no input is consumed
//!   every other container : nothing
//! A trailing `[*]` makes the ELEMENT type decide.
//!
//! The literal after the operator is `!`, which is malformed for every type (no
//! regex / IP / integer library is entered), so an admissible pair ends in the literal
//! lexer's error (kind != UnsupportedOp) and an inadmissible one in
//! UnsupportedOp{lhs_type}.  Every case is its own loop-free call on a string literal.
use super::super::*;
use super::common::{index_expr_get_type__contract, LHS_TYPE};
use crate::ast::index_expr::IndexExpr;
use crate::ast::parse::FilterParser;
use crate::scheme::verif_kani::common::{field, scheme_of};
use crate::scheme::FieldIndex;

/// Cut-off for the regex compiler.  kani-compiler 0.68 crashes (rvalue.rs:1009,
/// discriminant of a regex_automata type) as soon as `Regex::new` is statically
/// reachable, which it is from `lex_with_lhs`.  No obligation here hands a well-formed
/// regex literal to the lexer, so the function must never run: reaching it is a
/// FAILED check (panic), i.e. this stub cannot make an obligation pass.
pub(crate) fn regex_new__must_not_be_reached(
    _pattern: &str,
    _format: crate::rhs_types::RegexFormat,
    _settings: &crate::ast::parse::ParserSettings,
) -> Result<Regex, crate::rhs_types::RegexError> {
    panic!("the regex compiler was reached")
}

/// Cut-off for the destructor of `BTreeSet<ExpectedType>` (inside
/// `LexErrorKind::TypeMismatch`).  Every `if let Ok(..) = expect(..)` of the real lexers
/// drops a `LexErrorKind`; CBMC does not fold its niche-encoded tag and walks the B-tree
/// destructor of a set that is not there (measured: > 250 s for ONE drop at unwind 20).
/// `<BTreeMap as Drop>::drop` is `drop(ptr::read(self).into_iter())`; replacing
/// `core::mem::drop` by `forget` leaks the (non-existent) tree instead.  Memory
/// reclamation is not part of C04/C05; std's BTreeMap is in the trusted base.
pub(crate) fn mem_drop__leak<T>(x: T) {
    std::mem::forget(x)
}

#[derive(Clone, Copy, PartialEq, Eq)]
enum Outcome {
    /// Ok(IsTrue) with the whole input left
    IsTrueNothingConsumed,
    /// Ok(anything else)
    Accepted,
    /// Err(UnsupportedOp { lhs_type }) with lhs_type == the type given
    Unsupported,
    /// Err(UnsupportedOp { some other type })
    UnsupportedWrongType,
    /// any other error kind (the operator was admitted, the literal is malformed)
    LiteralError,
}

/// Calls the real `lex_with_lhs` on `f <input>` (or `f[*] <input>`), where `f` is
/// field 0 of `scheme`; `reported` is the type an UnsupportedOp error must name.
fn outcome(input: &'static str, scheme: &Scheme, each: bool, reported: Type) -> Outcome {
    let parser = FilterParser::new(scheme);
    let lhs = IndexExpr {
        identifier: IdentifierExpr::Field(field(scheme, 0)),
        indexes: if each { vec![FieldIndex::MapEach] } else { Vec::new() },
    };
    match ComparisonExpr::lex_with_lhs(input, &parser, lhs) {
        Ok((c, rest)) => {
            let o = if matches!(&c.op, ComparisonOpExpr::IsTrue) && std::ptr::eq(rest, input) {
                Outcome::IsTrueNothingConsumed
            } else {
                Outcome::Accepted
            };
            std::mem::forget(c);
            o
        }
        Err((kind, at)) => {
            // the error span is a sub-slice of the input (what ParseError::new requires)
            let lo = input.as_ptr() as usize;
            let a = at.as_ptr() as usize;
            assert!(lo <= a && a + at.len() <= lo + input.len(), "the error span lies inside the input");
            let o = match &kind {
                LexErrorKind::UnsupportedOp { lhs_type } => {
                    if *lhs_type == reported {
                        Outcome::Unsupported
                    } else {
                        Outcome::UnsupportedWrongType
                    }
                }
                _ => Outcome::LiteralError,
            };
            std::mem::forget(kind);
            o
        }
    }
}

/// One obligation per left-hand type.  `$eff` is the effective type (element type
/// under `[*]`), `$in/$ord/$int/$bytes` the admissibility of the four operator
/// classes for that type per the table above.
macro_rules! operator_matrix {
    ($name:ident, $decl:expr, $each:expr, $eff:expr, $in:expr, $ord:expr, $int:expr, $bytes:expr) => {
        #[kani::proof]
        #[kani::unwind(20)]
        #[kani::stub(crate::rhs_types::regex::Regex::new, crate::ast::field_expr::verif_kani::c04::regex_new__must_not_be_reached)]
        #[kani::stub(<crate::ast::index_expr::IndexExpr as crate::types::GetType>::get_type, crate::ast::field_expr::verif_kani::common::index_expr_get_type__contract)]
        fn $name() {
            let scheme = scheme_of(&[($decl, false)], true);
            unsafe {
                LHS_TYPE = Some($eff);
            }
            let want = |admissible: bool| if admissible { Outcome::LiteralError } else { Outcome::Unsupported };
            let s = &scheme;
            assert!(outcome("in !", s, $each, $eff) == want($in), "in");
            assert!(outcome("eq !", s, $each, $eff) == want($ord), "eq");
            assert!(outcome("== !", s, $each, $eff) == want($ord), "==");
            assert!(outcome("ne !", s, $each, $eff) == want($ord), "ne");
            assert!(outcome("!= !", s, $each, $eff) == want($ord), "!=");
            assert!(outcome("ge !", s, $each, $eff) == want($ord), "ge");
            assert!(outcome(">= !", s, $each, $eff) == want($ord), ">=");
            assert!(outcome("le !", s, $each, $eff) == want($ord), "le");
            assert!(outcome("<= !", s, $each, $eff) == want($ord), "<=");
            assert!(outcome("gt !", s, $each, $eff) == want($ord), "gt");
            assert!(outcome("> !", s, $each, $eff) == want($ord), ">");
            assert!(outcome("lt !", s, $each, $eff) == want($ord), "lt");
            assert!(outcome("< !", s, $each, $eff) == want($ord), "<");
            assert!(outcome("& !", s, $each, $eff) == want($int), "&");
            assert!(outcome("bitwise_and !", s, $each, $eff) == want($int), "bitwise_and");
            assert!(outcome("contains !", s, $each, $eff) == want($bytes), "contains");
            assert!(outcome("~ !", s, $each, $eff) == want($bytes), "~");
            assert!(outcome("matches !", s, $each, $eff) == want($bytes), "matches");
            assert!(outcome("wildcard !", s, $each, $eff) == want($bytes), "wildcard");
            assert!(outcome("strict wildcard !", s, $each, $eff) == want($bytes), "strict wildcard");
            // no operator at all is a parse error, but not a typing error
            assert!(outcome("!", s, $each, $eff) == Outcome::LiteralError, "no operator");
            assert!(outcome("", s, $each, $eff) == Outcome::LiteralError, "end of input");
            kani::cover!(true, "matrix completed");
            std::mem::forget(scheme);
        }
    };
}

operator_matrix!(operator_matrix__int, Type::Int, false, Type::Int, true, true, true, false);

#[kani::proof]
#[kani::unwind(20)]
#[kani::stub(crate::rhs_types::regex::Regex::new, crate::ast::field_expr::verif_kani::c04::regex_new__must_not_be_reached)]
#[kani::stub(std::mem::drop, crate::ast::field_expr::verif_kani::c04::mem_drop__leak)]
#[kani::stub(<crate::ast::index_expr::IndexExpr as crate::types::GetType>::get_type, crate::ast::field_expr::verif_kani::common::index_expr_get_type__contract)]
fn probe_one() {
    let scheme = scheme_of(&[(Type::Int, false)], true);
    unsafe {
        LHS_TYPE = Some(Type::Int);
    }
    assert!(outcome("contains !", &scheme, false, Type::Int) == Outcome::Unsupported);
    std::mem::forget(scheme);
}
