//! C07 obligations: comparison operator aliases lex to the same AST node, and
//! the longer spelling wins (>= vs >, <= vs <, != vs !, strict wildcard vs wildcard).
use super::super::*;
use crate::lex::verif_kani::common::is_suffix_at;

fn check(spelling: &'static str, joined: &'static str, want: ComparisonOp) {
    match ComparisonOp::lex(joined) {
        Ok((op, rest)) => {
            assert!(op == want, "an alias denotes the same operator as the canonical spelling");
            assert!(is_suffix_at(joined, rest, spelling.len()), "exactly the operator is consumed (maximal munch)");
        }
        Err(e) => {
            std::mem::forget(e);
            assert!(false, "every documented spelling is accepted");
        }
    }
}

macro_rules! spellings {
    ($($s:literal => $v:expr),* $(,)?) => {{
        $(
            check($s, $s, $v);
            check($s, concat!($s, " 1"), $v);
            check($s, concat!($s, "\"x\""), $v);
        )*
    }};
}

#[kani::proof]
#[kani::unwind(18)]
fn ordering_op_aliases__same_variant() {
    use ComparisonOp::Ordering as O;
    spellings!(
        "eq" => O(OrderingOp::Equal), "==" => O(OrderingOp::Equal),
        "ne" => O(OrderingOp::NotEqual), "!=" => O(OrderingOp::NotEqual),
        "ge" => O(OrderingOp::GreaterThanEqual), ">=" => O(OrderingOp::GreaterThanEqual),
        "le" => O(OrderingOp::LessThanEqual), "<=" => O(OrderingOp::LessThanEqual),
        "gt" => O(OrderingOp::GreaterThan), ">" => O(OrderingOp::GreaterThan),
        "lt" => O(OrderingOp::LessThan), "<" => O(OrderingOp::LessThan),
    );
}

#[kani::proof]
#[kani::unwind(18)]
fn other_comparison_op_aliases__same_variant() {
    spellings!(
        "in" => ComparisonOp::In,
        "&" => ComparisonOp::Int(IntOp::BitwiseAnd), "bitwise_and" => ComparisonOp::Int(IntOp::BitwiseAnd),
        "contains" => ComparisonOp::Bytes(BytesOp::Contains),
        "~" => ComparisonOp::Bytes(BytesOp::Matches), "matches" => ComparisonOp::Bytes(BytesOp::Matches),
        "wildcard" => ComparisonOp::Bytes(BytesOp::Wildcard),
        "strict wildcard" => ComparisonOp::Bytes(BytesOp::StrictWildcard),
    );
    let r = ComparisonOp::lex("=");
    assert!(r.is_err(), "a single = is not an operator");
    std::mem::forget(r);
}
