//! C07 obligations: comparison operator aliases lex to the same AST node, and
//! the longer spelling wins (>= vs >, <= vs <, != vs !, strict wildcard vs wildcard).
//!
//! Every case is a loop-free assert on a string literal (no symbolic selection
//! of the spelling), one obligation per spelling.  The per-enum lexers generated
//! by `lex_enum!` (OrderingOp, IntOp, BytesOp) are checked with tails "" and
//! " x"; `ComparisonOp::lex` - the entry the parser uses (ComparisonExpr::lex_with
//! and the function-call look-ahead) - is checked once per spelling.
//!
//! `lex::expect` is replaced by a loop-free stub that implements its CONTRACT
//! (lex/verif_kani/common.rs::expect__contract; the real `expect` is discharged
//! against the same contract in lex/verif_kani/c07.rs).  Reason: see
//! ast/logical_expr/verif_kani/c07.rs - the dead drop glue of the
//! `Result<&str, LexError>` temporaries is only affordable with unwind(1), which
//! memcmp's loop inside the real `expect` does not allow.
use super::super::*;
use crate::lex::verif_kani::common::is_suffix_at;

/// `<$ty>::lex($s)` is `Ok(($v, rest))` with `rest` = `$s` minus its first `$n` bytes.
macro_rules! lexes {
    ($ty:ty, $s:literal, $n:literal, $v:pat) => {{
        let s: &'static str = $s;
        let r = <$ty as Lex<'_>>::lex(s);
        assert!(r.is_ok(), "every documented spelling is accepted");
        assert!(matches!(&r, Ok(($v, _))), "an alias denotes the same operator as the canonical spelling");
        assert!(matches!(&r, Ok((_, rest)) if is_suffix_at(s, rest, $n)), "exactly the operator's characters are consumed (maximal munch)");
        kani::cover!(r.is_ok(), "spelling accepted");
        std::mem::forget(r);
    }};
}

/// `<$ty>::lex($s)` is an error.
macro_rules! rejects {
    ($ty:ty, $s:literal) => {{
        let r = <$ty as Lex<'_>>::lex($s);
        assert!(r.is_err(), "not an operator spelling");
        kani::cover!(r.is_err(), "rejected");
        std::mem::forget(r);
    }};
}

// same, plus std::mem::drop leaking (lex/verif_kani/common.rs::mem_drop__leak): used for
// the spellings deep in the alternative chain, which are 2-4 times faster without std's
// BTreeMap destructor in the dead drop glue.
macro_rules! obligation_leak {
    ($name:ident, $body:block) => {
        #[kani::proof]
        #[kani::unwind(1)]
        #[kani::stub(std::mem::drop, crate::lex::verif_kani::common::mem_drop__leak)]
        #[kani::stub(crate::lex::expect, crate::lex::verif_kani::common::expect__contract)]
        fn $name() $body
    };
}

macro_rules! obligation {
    ($name:ident, $body:block) => {
        #[kani::proof]
        #[kani::unwind(1)]
        #[kani::stub(crate::lex::expect, crate::lex::verif_kani::common::expect__contract)]
        fn $name() $body
    };
}

use ComparisonOp::Bytes as B;
use ComparisonOp::Int as I;
use ComparisonOp::Ordering as O;

// --- OrderingOp: eq/==, ne/!=, ge/>=, le/<=, gt/>, lt/<

obligation!(ordering_op__eq, {
    lexes!(OrderingOp, "eq", 2, OrderingOp::Equal);
    lexes!(OrderingOp, "eq x", 2, OrderingOp::Equal);
});
obligation!(ordering_op__eq_eq, {
    lexes!(OrderingOp, "==", 2, OrderingOp::Equal);
    lexes!(OrderingOp, "== x", 2, OrderingOp::Equal);
});
obligation!(ordering_op__ne, {
    lexes!(OrderingOp, "ne", 2, OrderingOp::NotEqual);
    lexes!(OrderingOp, "ne x", 2, OrderingOp::NotEqual);
});
obligation!(ordering_op__bang_eq, {
    lexes!(OrderingOp, "!=", 2, OrderingOp::NotEqual);
    lexes!(OrderingOp, "!= x", 2, OrderingOp::NotEqual);
});
obligation!(ordering_op__ge, {
    lexes!(OrderingOp, "ge", 2, OrderingOp::GreaterThanEqual);
    lexes!(OrderingOp, "ge x", 2, OrderingOp::GreaterThanEqual);
});
obligation!(ordering_op__gt_eq, {
    lexes!(OrderingOp, ">=", 2, OrderingOp::GreaterThanEqual);
    lexes!(OrderingOp, ">= x", 2, OrderingOp::GreaterThanEqual);
});
obligation_leak!(ordering_op__le, {
    lexes!(OrderingOp, "le", 2, OrderingOp::LessThanEqual);
    lexes!(OrderingOp, "le x", 2, OrderingOp::LessThanEqual);
});
obligation_leak!(ordering_op__lt_eq, {
    lexes!(OrderingOp, "<=", 2, OrderingOp::LessThanEqual);
    lexes!(OrderingOp, "<= x", 2, OrderingOp::LessThanEqual);
});
obligation_leak!(ordering_op__gt, {
    lexes!(OrderingOp, "gt", 2, OrderingOp::GreaterThan);
    lexes!(OrderingOp, "gt x", 2, OrderingOp::GreaterThan);
});
obligation_leak!(ordering_op__gt_sign, {
    lexes!(OrderingOp, ">", 1, OrderingOp::GreaterThan);
    lexes!(OrderingOp, "> x", 1, OrderingOp::GreaterThan);
});
obligation_leak!(ordering_op__lt, {
    lexes!(OrderingOp, "lt", 2, OrderingOp::LessThan);
    lexes!(OrderingOp, "lt x", 2, OrderingOp::LessThan);
});
obligation_leak!(ordering_op__lt_sign, {
    lexes!(OrderingOp, "<", 1, OrderingOp::LessThan);
    lexes!(OrderingOp, "< x", 1, OrderingOp::LessThan);
});
// a single `=` is not an operator; white space between `>` / `<` and `=` makes two tokens
obligation!(ordering_op__single_eq_rejected, {
    rejects!(OrderingOp, "= x");
});
obligation_leak!(ordering_op__gt_space_eq_is_gt, {
    lexes!(OrderingOp, "> =", 1, OrderingOp::GreaterThan);
});
obligation!(ordering_op__lt_space_eq_is_lt, {
    lexes!(OrderingOp, "< =", 1, OrderingOp::LessThan);
});

// --- IntOp: bitwise_and / &

obligation!(int_op__amp, {
    lexes!(IntOp, "&", 1, IntOp::BitwiseAnd);
    lexes!(IntOp, "& x", 1, IntOp::BitwiseAnd);
    lexes!(IntOp, "&1", 1, IntOp::BitwiseAnd);
});
obligation!(int_op__bitwise_and, {
    lexes!(IntOp, "bitwise_and", 11, IntOp::BitwiseAnd);
    lexes!(IntOp, "bitwise_and x", 11, IntOp::BitwiseAnd);
});

// --- BytesOp: contains, matches / ~, wildcard, strict wildcard

obligation!(bytes_op__contains, {
    lexes!(BytesOp, "contains", 8, BytesOp::Contains);
    lexes!(BytesOp, "contains x", 8, BytesOp::Contains);
});
obligation!(bytes_op__tilde, {
    lexes!(BytesOp, "~", 1, BytesOp::Matches);
    lexes!(BytesOp, "~ x", 1, BytesOp::Matches);
    lexes!(BytesOp, "~\"", 1, BytesOp::Matches);
});
obligation!(bytes_op__matches, {
    lexes!(BytesOp, "matches", 7, BytesOp::Matches);
    lexes!(BytesOp, "matches x", 7, BytesOp::Matches);
});
obligation_leak!(bytes_op__wildcard, {
    lexes!(BytesOp, "wildcard", 8, BytesOp::Wildcard);
    lexes!(BytesOp, "wildcard x", 8, BytesOp::Wildcard);
});
obligation_leak!(bytes_op__strict_wildcard, {
    lexes!(BytesOp, "strict wildcard", 15, BytesOp::StrictWildcard);
    lexes!(BytesOp, "strict wildcard x", 15, BytesOp::StrictWildcard);
});
// `strict` on its own is not an operator
obligation!(bytes_op__strict_alone_rejected, {
    rejects!(BytesOp, "strict x");
});

// --- ComparisonOp (parser entry): every spelling once

obligation!(comparison_op__in, {
    lexes!(ComparisonOp, "in", 2, ComparisonOp::In);
    lexes!(ComparisonOp, "in x", 2, ComparisonOp::In);
    lexes!(ComparisonOp, "in{", 2, ComparisonOp::In);
});
obligation!(comparison_op__eq, {
    lexes!(ComparisonOp, "eq x", 2, O(OrderingOp::Equal));
});
obligation!(comparison_op__eq_eq, {
    lexes!(ComparisonOp, "== x", 2, O(OrderingOp::Equal));
});
obligation!(comparison_op__ne, {
    lexes!(ComparisonOp, "ne x", 2, O(OrderingOp::NotEqual));
});
obligation!(comparison_op__bang_eq, {
    lexes!(ComparisonOp, "!= x", 2, O(OrderingOp::NotEqual));
});
obligation!(comparison_op__ge, {
    lexes!(ComparisonOp, "ge x", 2, O(OrderingOp::GreaterThanEqual));
});
obligation_leak!(comparison_op__gt_eq, {
    lexes!(ComparisonOp, ">= x", 2, O(OrderingOp::GreaterThanEqual));
});
obligation_leak!(comparison_op__le, {
    lexes!(ComparisonOp, "le x", 2, O(OrderingOp::LessThanEqual));
});
obligation_leak!(comparison_op__lt_eq, {
    lexes!(ComparisonOp, "<= x", 2, O(OrderingOp::LessThanEqual));
});
obligation_leak!(comparison_op__gt, {
    lexes!(ComparisonOp, "gt x", 2, O(OrderingOp::GreaterThan));
});
obligation_leak!(comparison_op__gt_sign, {
    lexes!(ComparisonOp, "> x", 1, O(OrderingOp::GreaterThan));
});
obligation_leak!(comparison_op__lt, {
    lexes!(ComparisonOp, "lt x", 2, O(OrderingOp::LessThan));
});
obligation_leak!(comparison_op__lt_sign, {
    lexes!(ComparisonOp, "< x", 1, O(OrderingOp::LessThan));
});
obligation_leak!(comparison_op__amp, {
    lexes!(ComparisonOp, "& x", 1, I(IntOp::BitwiseAnd));
});
obligation_leak!(comparison_op__bitwise_and, {
    lexes!(ComparisonOp, "bitwise_and x", 11, I(IntOp::BitwiseAnd));
});
obligation_leak!(comparison_op__contains, {
    lexes!(ComparisonOp, "contains x", 8, B(BytesOp::Contains));
});
obligation_leak!(comparison_op__tilde, {
    lexes!(ComparisonOp, "~ x", 1, B(BytesOp::Matches));
});
obligation_leak!(comparison_op__matches, {
    lexes!(ComparisonOp, "matches x", 7, B(BytesOp::Matches));
});
obligation_leak!(comparison_op__wildcard, {
    lexes!(ComparisonOp, "wildcard x", 8, B(BytesOp::Wildcard));
});
// 20 alternatives deep: with the contract stub and the dead BTreeSet destructors CBMC
// exceeds 14 GB; with std::mem::drop leaking (see lex/verif_kani/common.rs) the REAL
// `expect` is affordable (unwind 18 = memcmp over the 15-byte spelling).
#[kani::proof]
#[kani::unwind(18)]
#[kani::stub(std::mem::drop, crate::lex::verif_kani::common::mem_drop__leak)]
fn comparison_op__strict_wildcard() {
    lexes!(ComparisonOp, "strict wildcard x", 15, B(BytesOp::StrictWildcard));
}
// `!` alone is the unary operator, never a comparison
obligation_leak!(comparison_op__bang_alone_rejected, {
    rejects!(ComparisonOp, "! x");
});

