//! C17 obligation on the `InList` comparison object compiled by
//! `ComparisonExpr::compile_with_compiler` (arm lifted mechanically, see
//! kani/extract_arms.py): `x in $name` is exactly the answer of the matcher the
//! context holds for the list, queried with that name and x's value; absent x: false.
use super::super::*;
use super::common::*;
use super::extracted;
use crate::execution_context::ExecutionContext;
use crate::list_matcher::{ListDefinition, ListMatcher};
use crate::scheme::verif_kani::common::{builder_of, list, push_list};
use serde::{Deserialize, Serialize};

/// Matches exactly (list name whose 2nd byte is `tag`, Int value `id`).
#[derive(Clone, Debug, PartialEq, Serialize, Deserialize)]
struct Rec {
    id: i64,
    tag: u8,
}

impl ListMatcher for Rec {
    fn match_value(&self, name: &str, v: &LhsValue<'_>) -> bool {
        name.len() == 2 && name.as_bytes()[1] == self.tag && matches!(v, LhsValue::Int(i) if *i == self.id)
    }
    fn clear(&mut self) {}
}

#[derive(Debug)]
struct Def(i64, u8);

impl ListDefinition for Def {
    fn deserialize_matcher<'de>(
        &self,
        _: Type,
        _: &mut dyn erased_serde::Deserializer<'de>,
    ) -> Result<Box<dyn ListMatcher>, erased_serde::Error> {
        unreachable!()
    }
    fn new_matcher(&self) -> Box<dyn ListMatcher> {
        Box::new(Rec { id: self.0, tag: self.1 })
    }
}

#[kani::proof]
#[kani::unwind(4)]
#[kani::stub(crate::ast::index_expr::IndexExpr::compile_with, crate::ast::field_expr::verif_kani::common::compile_with__contract)]
fn compile_in_list__delegates_to_context_matcher() {
    let id0: i64 = kani::any();
    let id1: i64 = kani::any();
    let mut builder = builder_of(&[(Type::Int, false)]);
    // two lists: the comparison refers to list `which`; each matcher accepts a
    // different (name, value) pair
    push_list(&mut builder, Type::Ip, Box::new(Def(id0, b'0')));
    push_list(&mut builder, Type::Int, Box::new(Def(id1, b'1')));
    let scheme = builder.build();
    let ctx = ExecutionContext::<()>::new(&scheme);
    let x: i64 = kani::any();
    let which: bool = kani::any();
    let use_name1: bool = kani::any();
    unsafe {
        PROBE = Some(LhsValue::Int(x));
    }
    if cfg!(test) {
        // concrete playback: the same comparison through the real registry, compiler and context
        let mut b = crate::scheme::SchemeBuilder::new();
        b.add_optional_field("f", Type::Int).unwrap();
        b.add_list(Type::Ip, Def(id0, b'0')).unwrap();
        b.add_list(Type::Int, Def(id1, b'1')).unwrap();
        let s = b.build();
        let want = if which { use_name1 && x == id1 } else { !use_name1 && x == id0 };
        let mk = |s: &Scheme| ComparisonOpExpr::InList {
            name: ListName::from(String::from(if use_name1 { "n1" } else { "n0" })),
            list: s.get_list(&(if which { Type::Int } else { Type::Ip })).unwrap().to_owned(),
        };
        assert!(replay_on(s.clone(), mk(&s), Some(LhsValue::Int(x))) == want, "REPLAY on real code: wrong answer for a present value");
        assert!(!replay_on(s.clone(), mk(&s), None), "REPLAY on real code: absent x must be false");
        return;
    }
    let name = ListName::from(String::from(if use_name1 { "n1" } else { "n0" }));
    let l = list(&scheme, if which { 1 } else { 0 });
    let compiled = extracted::arm_in_list(field_lhs(&scheme, 0), &mut NoCompiler, kani::any(), name, l);
    std::mem::forget(compiled);
    let want = if which { use_name1 && x == id1 } else { !use_name1 && x == id0 };
    unsafe {
        assert!(REC_CALLS == 1 && REC_VEC_CALLS == 0);
        assert!(REC_RESULT == Some(want), "x in $name == answer of the context's matcher for that list, given (name, x)");
        assert!(REC_DEFAULT == Some(false), "absent x: false");
    }
    kani::cover!(want && which);
    kani::cover!(want && !which);
    std::mem::forget(ctx);
    std::mem::forget(scheme);
}
