//! C13 obligation on a CALL SITE of the nesting counter: a function call reached through
//! an identifier (`IdentifierExpr::lex_with`, engine/src/ast/field_expr.rs) must hand
//! `FunctionCallExpr::lex_with_function` a parser whose depth is one more than its own -
//! whatever the argument list looks like - or fail with NestingLimitExceeded at the limit.
//!
//! Modular set-up: the callee `FunctionCallExpr::lex_with_function` is replaced by a stub
//! that only RECORDS the nesting depth of the parser it receives (its own behaviour is not
//! part of this obligation); the name registry lookup `Scheme::get` is replaced by its
//! contract (linear search; HashMap is out of reach); `std::mem::drop` leaks (see
//! common.rs).  The real `IdentifierExpr::lex_with`, `Identifier::lex_with`,
//! `with_increased_nesting`, `skip_space`, `take_while`, `expect` run unmodified.
use super::super::*;
use super::common::*;
use crate::ast::function_expr::FunctionCallExpr;
use crate::functions::{CompiledFunction, FunctionDefinition, FunctionDefinitionContext, FunctionParam, FunctionParamError};
use crate::scheme::verif_kani::common::{builder_of, function, push_function};
use crate::scheme::FunctionRef;
use crate::ParserSettings;

#[derive(Debug)]
pub(crate) struct NoFn;

impl FunctionDefinition for NoFn {
    fn check_param(
        &self,
        _: &ParserSettings,
        _: &mut dyn ExactSizeIterator<Item = FunctionParam<'_>>,
        _: &FunctionParam<'_>,
        _: Option<&mut FunctionDefinitionContext>,
    ) -> Result<(), FunctionParamError> {
        unreachable!()
    }
    fn return_type(&self, _: &mut dyn ExactSizeIterator<Item = FunctionParam<'_>>, _: Option<&FunctionDefinitionContext>) -> Type {
        Type::Bool
    }
    fn arg_count(&self) -> (usize, Option<usize>) {
        (0, None)
    }
    fn compile(&self, _: &mut dyn ExactSizeIterator<Item = FunctionParam<'_>>, _: Option<FunctionDefinitionContext>) -> CompiledFunction {
        unreachable!()
    }
}

pub(crate) static mut CALLEE_DEPTH: Option<u64> = None;

/// Recording stub for `FunctionCallExpr::lex_with_function`.
pub(crate) fn lex_with_function__records_depth<'i>(input: &'i str, parser: &FilterParser<'_>, function: FunctionRef<'_>) -> LexResult<'i, FunctionCallExpr> {
    unsafe {
        CALLEE_DEPTH = Some(crate::ast::parse::verif_kani::common::depth(parser));
    }
    Err((LexErrorKind::EOF, input))
}

fn call_site(input: &'static str) {
    call_site_via(input, true)
}

/// `via_identifier`: true = `IdentifierExpr::lex_with` (field_expr.rs), false =
/// `<FunctionCallExpr as LexWith>::lex_with` (function_expr.rs) - the two places where a
/// function call's argument list is entered.
pub(crate) fn call_site_via(input: &'static str, via_identifier: bool) {
    let mut b = builder_of(&[]);
    push_function(&mut b, Box::new(NoFn));
    let scheme = b.build();
    let mut parser = FilterParser::new(&scheme);
    let max: u16 = kani::any();
    parser.set_max_nesting_depth(max);
    let cur = crate::ast::parse::verif_kani::common::set_any_depth(&mut parser);
    let r: Result<(), (LexErrorKind, &str)> = if via_identifier {
        IdentifierExpr::lex_with(input, &parser).map(|(e, _)| std::mem::forget(e))
    } else {
        <FunctionCallExpr as crate::lex::LexWith<'_, &FilterParser<'_>>>::lex_with(input, &parser).map(|(e, _)| std::mem::forget(e))
    };
    match &r {
        Err((LexErrorKind::NestingLimitExceeded { limit }, _)) => {
            assert!(cur >= max as u64, "the limit is reported only when it is reached");
            assert!(*limit as u64 == max as u64);
            let seen = unsafe { CALLEE_DEPTH };
            assert!(seen.is_none(), "the argument list is not parsed beyond the limit");
        }
        _ => {
            assert!(cur < max as u64, "a function call beyond the limit must be refused");
            let seen = unsafe { CALLEE_DEPTH };
            assert!(seen == Some(cur + 1), "a function call's argument list is parsed one level deeper");
        }
    }
    kani::cover!(cur < max as u64);
    kani::cover!(cur >= max as u64);
    std::mem::forget(r);
    std::mem::forget(scheme);
}

macro_rules! call_site_case {
    ($name:ident, $input:literal) => {
        #[kani::proof]
        #[kani::unwind(6)]
        #[kani::stub(crate::ast::function_expr::FunctionCallExpr::lex_with_function, crate::ast::field_expr::verif_kani::c13::lex_with_function__records_depth)]
        #[kani::stub(crate::scheme::Scheme::get, crate::scheme::verif_kani::common::scheme_get__contract)]
        #[kani::stub(std::mem::drop, crate::ast::field_expr::verif_kani::common::mem_drop__leak)]
        fn $name() {
            call_site($input)
        }
    };
}
call_site_case!(function_call_site__empty_argument_list_counts, "fun()");
call_site_case!(function_call_site__with_arguments_counts, "fun( 1 )");
