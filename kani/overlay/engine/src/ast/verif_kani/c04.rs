//! C04 obligations on the two root-level typing checks of engine/src/ast/mod.rs:
//!   * a filter's root must be a plain boolean  (`<FilterAst as LexWith>::lex_with`),
//!   * a value expression must be free of `[*]` WHEREVER it stands in the index chain
//!     (`<FilterValueAst as LexWith>::lex_with`).
//! Both functions are `let (x, rest) = <recursive descent>?; <check>`; the check - everything
//! after the first statement - is lifted mechanically (kani/extract_arms.py, gen_tails) and
//! run on hand-built ASTs.  `<IndexExpr as GetType>::get_type` is replaced by its contract
//! (the harness-chosen type of the left-hand side; discharged in
//! ast::index_expr::verif_kani::c04::get_type__*), `ExpectedTypeList::from` by its contract.
use super::super::*;
use super::extracted_tails::{filter_ast_lex_with__tail, filter_value_ast_lex_with__tail};
use crate::ast::field_expr::verif_kani::common::{field_lhs, index_expr_get_type__contract, LHS_TYPE};
use crate::ast::field_expr::{ComparisonExpr, ComparisonOpExpr};
use crate::ast::logical_expr::LogicalExpr;
use crate::lex::LexErrorKind;
use crate::scheme::verif_kani::common::scheme_of;
use crate::scheme::FieldIndex;
use crate::types::Type;

macro_rules! tail_obligation {
    ($name:ident, $unwind:literal, $body:block) => {
        #[kani::proof]
        #[kani::unwind($unwind)]
        #[kani::stub(<crate::ast::index_expr::IndexExpr as crate::types::GetType>::get_type, crate::ast::field_expr::verif_kani::common::index_expr_get_type__contract)]
        #[kani::stub(<crate::types::ExpectedTypeList as std::convert::From<crate::types::Type>>::from, crate::types::verif_kani::common::expected_type_list_of__contract)]
        #[kani::stub(std::mem::drop, crate::ast::field_expr::verif_kani::common::mem_drop__leak)]
        fn $name() $body
    };
}

fn value_expr_case(indexes: Vec<FieldIndex>, elem: Type, must_be_accepted: bool) {
    let scheme = scheme_of(&[(Type::Array(Type::Array(Type::Int.into()).into()), false)], true);
    let parser = FilterParser::new(&scheme);
    let mut op = field_lhs(&scheme, 0);
    op.indexes = indexes;
    unsafe {
        LHS_TYPE = Some(elem);
    }
    let r = filter_value_ast_lex_with__tail("f", &parser, op, "");
    match &r {
        Ok(_) => {
            assert!(must_be_accepted, "a value expression containing [*] anywhere must be refused");
        }
        Err((LexErrorKind::TypeMismatch(_), _)) => {
            assert!(!must_be_accepted, "a value expression free of [*] must be accepted");
        }
        Err(_) => {
            assert!(false, "unexpected error kind");
        }
    }
    std::mem::forget(r);
    std::mem::forget(scheme);
}

tail_obligation!(value_expr__without_map_each_is_accepted, 4, {
    value_expr_case(vec![FieldIndex::ArrayIndex(kani::any())], Type::Array(Type::Int.into()), true)
});
tail_obligation!(value_expr__trailing_map_each_is_refused, 4, {
    value_expr_case(vec![FieldIndex::MapEach], Type::Array(Type::Int.into()), false)
});
tail_obligation!(value_expr__map_each_in_the_middle_is_refused, 5, {
    value_expr_case(vec![FieldIndex::MapEach, FieldIndex::ArrayIndex(kani::any())], Type::Int, false)
});

fn root_case(lhs_ty: Type, must_be_accepted: bool) {
    let scheme = scheme_of(&[(lhs_ty, false)], true);
    let parser = FilterParser::new(&scheme);
    unsafe {
        LHS_TYPE = Some(lhs_ty);
    }
    let op = LogicalExpr::Comparison(ComparisonExpr { lhs: field_lhs(&scheme, 0), op: ComparisonOpExpr::IsTrue });
    let r = filter_ast_lex_with__tail(&parser, op, "");
    match &r {
        Ok(_) => {
            assert!(must_be_accepted, "a filter whose root is not a plain boolean must be refused");
        }
        Err((LexErrorKind::TypeMismatch(_), _)) => {
            assert!(!must_be_accepted, "a filter whose root is a plain boolean must be accepted");
        }
        Err(_) => {
            assert!(false, "unexpected error kind");
        }
    }
    std::mem::forget(r);
    std::mem::forget(scheme);
}

tail_obligation!(filter_root__plain_boolean_is_accepted, 2, { root_case(Type::Bool, true) });
tail_obligation!(filter_root__boolean_array_is_refused, 2, { root_case(Type::Array(Type::Bool.into()), false) });
