//! C13: the second call site of the nesting counter for function calls,
//! `<FunctionCallExpr as LexWith>::lex_with` (function_expr.rs).  Same modular set-up as
//! `ast::field_expr::verif_kani::c13` (callee `lex_with_function` replaced by a stub that
//! records the depth it is handed).
use crate::ast::field_expr::verif_kani::c13::call_site_via;

macro_rules! call_site_case {
    ($name:ident, $input:literal) => {
        #[kani::proof]
        #[kani::unwind(6)]
        #[kani::stub(crate::ast::function_expr::FunctionCallExpr::lex_with_function, crate::ast::field_expr::verif_kani::c13::lex_with_function__records_depth)]
        #[kani::stub(crate::scheme::Scheme::get, crate::scheme::verif_kani::common::scheme_get__contract)]
        #[kani::stub(std::mem::drop, crate::ast::field_expr::verif_kani::common::mem_drop__leak)]
        fn $name() {
            call_site_via($input, false)
        }
    };
}
call_site_case!(function_call_expr_lex_with__empty_argument_list_counts, "fun()");
call_site_case!(function_call_expr_lex_with__with_arguments_counts, "fun( 1 )");
