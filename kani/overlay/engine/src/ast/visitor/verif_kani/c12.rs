//! C12 obligations: every `walk` visits each immediate child exactly once (a
//! recording visitor is the ghost state), the default `visit_*` methods descend,
//! and the two usage visitors apply the leaf rules of the property.
//!
//! Paper lemma (DESIGN.md, C12): by structural induction on the AST these
//! per-node contracts give uses(f) <=> f occurs, uses_list(f) <=> f occurs in the
//! left-hand side of some `in $list` comparison.
use super::super::*;
use crate::ast::field_expr::{ComparisonOpExpr, IdentifierExpr, OrderingOp};
use crate::ast::function_expr::{FunctionCallArgExpr, FunctionCallExpr};
use crate::ast::logical_expr::{LogicalOp, ParenthesizedExpr, QuantifierArgExpr, QuantifierOp, UnaryOp};
use crate::ast::{FilterAst, FilterValueAst};
use crate::functions::{CompiledFunction, FunctionDefinition, FunctionDefinitionContext, FunctionParam, FunctionParamError};
use crate::rhs_types::ListName;
use crate::scheme::verif_kani::common::*;
use crate::scheme::Scheme;
use crate::types::{RhsValue, Type};
use crate::list_matcher::NeverList;
use crate::ParserSettings;

const EXPR: u8 = 1;
const LOGICAL: u8 = 2;
const COMPARISON: u8 = 3;
const VALUE: u8 = 4;
const INDEX: u8 = 5;
const CALL: u8 = 6;
const ARG: u8 = 7;
const FIELD: u8 = 8;
const FUNCTION: u8 = 9;

fn addr<T>(t: &T) -> usize {
    t as *const T as usize
}

/// Ghost state: the sequence of (kind, address) of visited nodes; never descends.
struct Rec {
    n: usize,
    kind: [u8; 6],
    at: [usize; 6],
}

impl Rec {
    fn new() -> Self {
        Rec { n: 0, kind: [0; 6], at: [0; 6] }
    }
    fn log(&mut self, k: u8, a: usize) {
        self.kind[self.n] = k;
        self.at[self.n] = a;
        self.n += 1;
    }
    fn is(&self, i: usize, k: u8, a: usize) -> bool {
        i < self.n && self.kind[i] == k && self.at[i] == a
    }
}

impl<'a> Visitor<'a> for Rec {
    fn visit_expr(&mut self, node: &'a impl Expr) {
        self.log(EXPR, addr(node))
    }
    fn visit_logical_expr(&mut self, node: &'a LogicalExpr) {
        self.log(LOGICAL, addr(node))
    }
    fn visit_comparison_expr(&mut self, node: &'a ComparisonExpr) {
        self.log(COMPARISON, addr(node))
    }
    fn visit_value_expr(&mut self, node: &'a impl ValueExpr) {
        self.log(VALUE, addr(node))
    }
    fn visit_index_expr(&mut self, node: &'a IndexExpr) {
        self.log(INDEX, addr(node))
    }
    fn visit_function_call_expr(&mut self, node: &'a FunctionCallExpr) {
        self.log(CALL, addr(node))
    }
    fn visit_function_call_arg_expr(&mut self, node: &'a FunctionCallArgExpr) {
        self.log(ARG, addr(node))
    }
    fn visit_field(&mut self, node: &'a Field) {
        self.log(FIELD, addr(node))
    }
    fn visit_function(&mut self, node: &'a Function) {
        self.log(FUNCTION, addr(node))
    }
}

#[derive(Debug)]
struct NoFn;

impl FunctionDefinition for NoFn {
    fn check_param(
        &self,
        _: &ParserSettings,
        _: &mut dyn ExactSizeIterator<Item = FunctionParam<'_>>,
        _: &FunctionParam<'_>,
        _: Option<&mut FunctionDefinitionContext>,
    ) -> Result<(), FunctionParamError> {
        unreachable!()
    }
    fn return_type(&self, _: &mut dyn ExactSizeIterator<Item = FunctionParam<'_>>, _: Option<&FunctionDefinitionContext>) -> Type {
        Type::Bool
    }
    fn arg_count(&self) -> (usize, Option<usize>) {
        (0, None)
    }
    fn compile(&self, _: &mut dyn ExactSizeIterator<Item = FunctionParam<'_>>, _: Option<FunctionDefinitionContext>) -> CompiledFunction {
        unreachable!()
    }
}

/// fields: 0: Bool, 1: Int; one function; one Int list.
fn scheme() -> Scheme {
    let mut b = builder_of(&[(Type::Bool, false), (Type::Int, false)]);
    push_function(&mut b, Box::new(NoFn));
    push_list(&mut b, Type::Int, Box::new(NeverList {}));
    b.build()
}

fn index_of_field(s: &Scheme, i: usize) -> IndexExpr {
    IndexExpr {
        identifier: IdentifierExpr::Field(field(s, i)),
        indexes: Vec::new(),
    }
}

fn cmp_is_true(s: &Scheme) -> ComparisonExpr {
    ComparisonExpr {
        lhs: index_of_field(s, 0),
        op: ComparisonOpExpr::IsTrue,
    }
}

fn leaf(s: &Scheme) -> LogicalExpr {
    LogicalExpr::Comparison(cmp_is_true(s))
}

// ---------------------------------------------------------------- K1: walk

#[kani::proof]
#[kani::unwind(4)]
fn walk_logical_comparison__visits_child_once() {
    let s = scheme();
    let node = leaf(&s);
    let mut r = Rec::new();
    node.walk(&mut r);
    match &node {
        LogicalExpr::Comparison(c) => {
            assert!(r.n == 1 && r.is(0, COMPARISON, addr(c)), "a comparison node is visited exactly once");
        }
        _ => unreachable!(),
    }
    std::mem::forget(node);
    std::mem::forget(s);
}

#[kani::proof]
#[kani::unwind(4)]
fn walk_logical_parenthesized_unary__visits_child_once() {
    let s = scheme();
    let node = LogicalExpr::Parenthesized(Box::new(ParenthesizedExpr { expr: leaf(&s) }));
    let mut r = Rec::new();
    node.walk(&mut r);
    match &node {
        LogicalExpr::Parenthesized(p) => {
            assert!(r.n == 1 && r.is(0, LOGICAL, addr(&p.expr)), "the parenthesized expression is visited exactly once");
        }
        _ => unreachable!(),
    }
    std::mem::forget(node);
    let node = LogicalExpr::Unary { op: UnaryOp::Not, arg: Box::new(leaf(&s)) };
    let mut r = Rec::new();
    node.walk(&mut r);
    match &node {
        LogicalExpr::Unary { arg, .. } => {
            assert!(r.n == 1 && r.is(0, LOGICAL, addr(&**arg)), "the operand of not is visited exactly once");
        }
        _ => unreachable!(),
    }
    std::mem::forget(node);
    std::mem::forget(s);
}

#[kani::proof]
#[kani::unwind(4)]
fn walk_logical_quantifier__visits_argument_once() {
    let s = scheme();
    let op = if kani::any() { QuantifierOp::Any } else { QuantifierOp::All };
    let node = LogicalExpr::Quantifier { op, arg: Box::new(QuantifierArgExpr::IndexExpr(index_of_field(&s, 1))) };
    let mut r = Rec::new();
    node.walk(&mut r);
    match &node {
        LogicalExpr::Quantifier { arg, .. } => match &**arg {
            QuantifierArgExpr::IndexExpr(ie) => {
                assert!(r.n == 1 && r.is(0, INDEX, addr(ie)), "a value argument of any/all is visited exactly once");
            }
            _ => unreachable!(),
        },
        _ => unreachable!(),
    }
    std::mem::forget(node);
    let node = LogicalExpr::Quantifier { op, arg: Box::new(QuantifierArgExpr::Logical(leaf(&s))) };
    let mut r = Rec::new();
    node.walk(&mut r);
    match &node {
        LogicalExpr::Quantifier { arg, .. } => match &**arg {
            QuantifierArgExpr::Logical(le) => {
                assert!(r.n == 1 && r.is(0, LOGICAL, addr(le)), "a logical argument of any/all is visited exactly once");
            }
            _ => unreachable!(),
        },
        _ => unreachable!(),
    }
    std::mem::forget(node);
    std::mem::forget(s);
}

fn walk_combining<const N: usize>() {
    let s = scheme();
    let mut items = Vec::with_capacity(N);
    let mut i = 0;
    while i < N {
        items.push(leaf(&s));
        i += 1;
    }
    let op = match kani::any::<u8>() % 3 {
        0 => LogicalOp::Or,
        1 => LogicalOp::Xor,
        _ => LogicalOp::And,
    };
    let node = LogicalExpr::Combining { op, items };
    let mut r = Rec::new();
    node.walk(&mut r);
    match &node {
        LogicalExpr::Combining { items, .. } => {
            assert!(r.n == N, "every operand exactly once");
            let mut i = 0;
            while i < N {
                assert!(r.is(i, LOGICAL, addr(&items[i])), "operand i is visited (in order)");
                i += 1;
            }
        }
        _ => unreachable!(),
    }
    std::mem::forget(node);
    std::mem::forget(s);
}

#[kani::proof]
#[kani::unwind(5)]
fn walk_logical_combining__visits_each_operand_once_n2() {
    walk_combining::<2>()
}

#[kani::proof]
#[kani::unwind(6)]
fn walk_logical_combining__visits_each_operand_once_n3() {
    walk_combining::<3>()
}

#[kani::proof]
#[kani::unwind(4)]
fn walk_comparison_and_index__visit_lhs_and_identifier() {
    let s = scheme();
    let c = cmp_is_true(&s);
    let mut r = Rec::new();
    c.walk(&mut r);
    assert!(r.n == 1 && r.is(0, INDEX, addr(&c.lhs)), "the left-hand side of a comparison is visited exactly once");
    let mut r = Rec::new();
    c.lhs.walk(&mut r);
    match &c.lhs.identifier {
        IdentifierExpr::Field(f) => {
            assert!(r.n == 1 && r.is(0, FIELD, addr(f)), "an index base that is a field reports the field");
        }
        _ => unreachable!(),
    }
    std::mem::forget(c);
    let call = FunctionCallExpr { function: function(&s, 0), args: Vec::new(), context: None };
    let ie = IndexExpr { identifier: IdentifierExpr::FunctionCallExpr(call), indexes: Vec::new() };
    let mut r = Rec::new();
    ie.walk(&mut r);
    match &ie.identifier {
        IdentifierExpr::FunctionCallExpr(c) => {
            assert!(r.n == 1 && r.is(0, CALL, addr(c)), "an index base that is a call visits the call");
        }
        _ => unreachable!(),
    }
    std::mem::forget(ie);
    std::mem::forget(s);
}

fn walk_call<const M: usize>() {
    let s = scheme();
    let mut args = Vec::with_capacity(M);
    let mut i = 0;
    while i < M {
        let a = match i % 3 {
            0 => FunctionCallArgExpr::IndexExpr(index_of_field(&s, 1)),
            1 => FunctionCallArgExpr::Literal(RhsValue::Int(7)),
            _ => FunctionCallArgExpr::Logical(leaf(&s)),
        };
        args.push(a);
        i += 1;
    }
    let call = FunctionCallExpr { function: function(&s, 0), args, context: None };
    let mut r = Rec::new();
    call.walk(&mut r);
    assert!(r.n == M + 1, "every argument exactly once, plus the function itself");
    let mut i = 0;
    while i < M {
        assert!(r.is(i, ARG, addr(&call.args[i])), "argument i is visited (in order)");
        i += 1;
    }
    assert!(r.is(M, FUNCTION, addr(&call.function)));
    std::mem::forget(call);
    std::mem::forget(s);
}

#[kani::proof]
#[kani::unwind(4)]
fn walk_function_call__visits_each_argument_once_m0() {
    walk_call::<0>()
}

#[kani::proof]
#[kani::unwind(6)]
fn walk_function_call__visits_each_argument_once_m3() {
    walk_call::<3>()
}

#[kani::proof]
#[kani::unwind(4)]
fn walk_function_call_arg__visits_payload_once() {
    let s = scheme();
    let a = FunctionCallArgExpr::IndexExpr(index_of_field(&s, 1));
    let mut r = Rec::new();
    a.walk(&mut r);
    match &a {
        FunctionCallArgExpr::IndexExpr(ie) => {
            assert!(r.n == 1 && r.is(0, INDEX, addr(ie)));
        }
        _ => unreachable!(),
    }
    std::mem::forget(a);
    let a = FunctionCallArgExpr::Logical(leaf(&s));
    let mut r = Rec::new();
    a.walk(&mut r);
    match &a {
        FunctionCallArgExpr::Logical(le) => {
            assert!(r.n == 1 && r.is(0, LOGICAL, addr(le)));
        }
        _ => unreachable!(),
    }
    std::mem::forget(a);
    let a = FunctionCallArgExpr::Literal(RhsValue::Int(1));
    let mut r = Rec::new();
    a.walk(&mut r);
    assert!(r.n == 0, "a literal has no identifiers");
    std::mem::forget(a);
    std::mem::forget(s);
}

#[kani::proof]
#[kani::unwind(4)]
fn walk_ast_roots__visit_root_expression_once() {
    let s = scheme();
    let ast = FilterAst { scheme: s.clone(), op: leaf(&s) };
    let mut r = Rec::new();
    ast.walk(&mut r);
    assert!(r.n == 1 && r.is(0, LOGICAL, addr(&ast.op)));
    std::mem::forget(ast);
    let vast = FilterValueAst { scheme: s.clone(), op: index_of_field(&s, 1) };
    let mut r = Rec::new();
    vast.walk(&mut r);
    assert!(r.n == 1 && r.is(0, INDEX, addr(&vast.op)));
    std::mem::forget(vast);
    std::mem::forget(s);
}

// ---------------------------------------------------------------- K2: default methods descend

/// Overrides only the two generic entry points; everything else is default.
struct Generic {
    n: usize,
    kind: [u8; 4],
    at: [usize; 4],
}

impl<'a> Visitor<'a> for Generic {
    fn visit_expr(&mut self, node: &'a impl Expr) {
        self.kind[self.n] = EXPR;
        self.at[self.n] = addr(node);
        self.n += 1;
    }
    fn visit_value_expr(&mut self, node: &'a impl ValueExpr) {
        self.kind[self.n] = VALUE;
        self.at[self.n] = addr(node);
        self.n += 1;
    }
}

#[kani::proof]
#[kani::unwind(4)]
fn visitor_defaults__typed_visits_forward_to_generic_ones() {
    let s = scheme();
    let le = leaf(&s);
    let c = cmp_is_true(&s);
    let ie = index_of_field(&s, 1);
    let arg = FunctionCallArgExpr::Literal(RhsValue::Int(1));
    let call = FunctionCallExpr { function: function(&s, 0), args: Vec::new(), context: None };
    let mut g = Generic { n: 0, kind: [0; 4], at: [0; 4] };
    g.visit_logical_expr(&le);
    assert!(g.n == 1 && g.kind[0] == EXPR && g.at[0] == addr(&le));
    g.visit_comparison_expr(&c);
    assert!(g.n == 2 && g.kind[1] == EXPR && g.at[1] == addr(&c));
    g.n = 0;
    g.visit_index_expr(&ie);
    assert!(g.n == 1 && g.kind[0] == VALUE && g.at[0] == addr(&ie));
    g.visit_function_call_expr(&call);
    assert!(g.n == 2 && g.kind[1] == VALUE && g.at[1] == addr(&call));
    g.visit_function_call_arg_expr(&arg);
    assert!(g.n == 3 && g.kind[2] == VALUE && g.at[2] == addr(&arg));
    std::mem::forget((le, c, ie, arg, call));
    std::mem::forget(s);
}

/// Overrides every typed visit (recording, not descending) but NOT the two
/// generic entry points: the default visit_expr / visit_value_expr must `walk`.
struct TypedOnly {
    comparisons: usize,
    fields: usize,
    others: usize,
}

impl<'a> Visitor<'a> for TypedOnly {
    fn visit_logical_expr(&mut self, _: &'a LogicalExpr) {
        self.others += 1;
    }
    fn visit_comparison_expr(&mut self, _: &'a ComparisonExpr) {
        self.comparisons += 1;
    }
    fn visit_index_expr(&mut self, _: &'a IndexExpr) {
        self.others += 1;
    }
    fn visit_function_call_expr(&mut self, _: &'a FunctionCallExpr) {
        self.others += 1;
    }
    fn visit_function_call_arg_expr(&mut self, _: &'a FunctionCallArgExpr) {
        self.others += 1;
    }
    fn visit_field(&mut self, _: &'a Field) {
        self.fields += 1;
    }
    fn visit_function(&mut self, _: &'a Function) {
        self.others += 1;
    }
}

#[kani::proof]
#[kani::unwind(4)]
fn visitor_defaults__generic_visits_walk() {
    let s = scheme();
    let le = leaf(&s);
    let ie = index_of_field(&s, 1);
    let mut t = TypedOnly { comparisons: 0, fields: 0, others: 0 };
    t.visit_expr(&le);
    assert!(t.comparisons == 1 && t.fields == 0 && t.others == 0, "default visit_expr walks the node");
    t.visit_value_expr(&ie);
    assert!(t.comparisons == 1 && t.fields == 1 && t.others == 0, "default visit_value_expr walks the node");
    std::mem::forget((le, ie));
    std::mem::forget(s);
}

// ---------------------------------------------------------------- K3: UsesVisitor

/// visit_field sets `uses` <=> same scheme and same field index; it never resets.
#[kani::proof]
#[kani::unwind(4)]
fn uses_visitor_visit_field__exact_match_sticky() {
    let s1 = scheme();
    let s2 = scheme();
    let i: usize = kani::any();
    let j: usize = kani::any();
    kani::assume(i < 2 && j < 2);
    let other: bool = kani::any();
    let f = field(if other { &s2 } else { &s1 }, j);
    let mut v = UsesVisitor::new(field_ref(&s1, i));
    assert!(!v.uses());
    v.visit_field(&f);
    assert!(v.uses() == (!other && i == j), "uses <=> the very same field of the very same scheme");
    let was = v.uses();
    let g = field(&s1, 1 - i);
    v.visit_field(&g);
    assert!(v.uses() == was, "a different field never sets nor resets the answer");
    kani::cover!(was);
    kani::cover!(!was && i == j);
    std::mem::forget((f, g));
    std::mem::forget((s1, s2));
}

/// Through a comparison node: lhs field j, looked-for field i.
#[kani::proof]
#[kani::unwind(4)]
fn uses_visitor_through_comparison__finds_lhs_field() {
    let s = scheme();
    let i: usize = kani::any();
    let j: usize = kani::any();
    kani::assume(i < 2 && j < 2);
    let c = ComparisonExpr { lhs: index_of_field(&s, j), op: ComparisonOpExpr::IsTrue };
    let mut v = UsesVisitor::new(field_ref(&s, i));
    v.visit_comparison_expr(&c);
    assert!(v.uses() == (i == j), "a field used as a left-hand side is reported, others are not");
    // early exit must not lose the answer
    v.visit_comparison_expr(&c);
    assert!(v.uses() == (i == j));
    std::mem::forget(c);
    std::mem::forget(s);
}

// ---------------------------------------------------------------- K4: UsesListVisitor

/// uses_list: true <=> the comparison is `in $list` and its lhs uses the field.
#[kani::proof]
#[kani::unwind(5)]
fn uses_list_visitor__only_in_list_comparisons() {
    let s = scheme();
    let i: usize = kani::any();
    kani::assume(i < 2);
    let in_list: bool = kani::any();
    let op = if in_list {
        ComparisonOpExpr::InList { list: list(&s, 0), name: ListName::from(String::from("n")) }
    } else {
        ComparisonOpExpr::Ordering { op: OrderingOp::Equal, rhs: RhsValue::Int(1) }
    };
    let c = ComparisonExpr { lhs: index_of_field(&s, 1), op };
    let mut v = UsesListVisitor::new(field_ref(&s, i));
    v.visit_comparison_expr(&c);
    assert!(v.uses() == (in_list && i == 1), "uses_list <=> the field occurs in the lhs of an `in $list` comparison");
    kani::cover!(v.uses());
    kani::cover!(!v.uses() && i == 1, "used, but not in a list comparison");
    std::mem::forget(c);
    std::mem::forget(s);
}

// NOT REGISTERED (measured): "UsesListVisitor descends through a comparison that is not
// `in $list`" (`f(x in $l) == 1`).  Running the real recursion on that 4-node AST did not
// finish in 15 min (unfolded enum tags make every walk explore every arm, recursively), and
// Kani 0.68 cannot stub a generic trait method (`<ComparisonExpr as Expr>::walk`), so the
// modular formulation is not available either.  Listed under `unverified` in C12.toml.
