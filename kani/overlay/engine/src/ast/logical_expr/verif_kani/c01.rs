//! C01 obligations on `LogicalExpr::compile_with_compiler` (single-boolean
//! combinators) and on `LogicalOp`'s derived order.
//!
//! Modularity: the children are compiled by a harness `Compiler` that returns
//! arbitrary closures (their *contract*: "a closure that yields b_i"), so the
//! real combinator code is checked against the children's contracts, not their
//! bodies.
use super::super::*;
use crate::ast::field_expr::{ComparisonOpExpr, IdentifierExpr};
use crate::compiler::Compiler;
use crate::execution_context::ExecutionContext;
use crate::scheme::verif_kani::common::{field, scheme_of};
use crate::scheme::Scheme;

/// Compiles every child to a constant closure yielding the next canned value.
struct Canned<const N: usize> {
    next: usize,
    vals: [bool; N],
}

impl<const N: usize> Compiler for Canned<N> {
    type U = ();

    fn compile_logical_expr(&mut self, node: LogicalExpr) -> CompiledExpr<()> {
        std::mem::forget(node);
        let b = self.vals[self.next];
        self.next += 1;
        CompiledExpr::One(CompiledOneExpr::new(move |_| b))
    }

    fn compile_comparison_expr(&mut self, node: ComparisonExpr) -> CompiledExpr<()> {
        std::mem::forget(node);
        let b = self.vals[self.next];
        self.next += 1;
        CompiledExpr::One(CompiledOneExpr::new(move |_| b))
    }

    // Every other entry point is overridden too: CBMC does not fold the
    // discriminant of niche-encoded enum variants, so the (infeasible) arms of
    // the real `match` are explored symbolically; the defaults would drag the
    // whole compiler into each of them.
    fn compile_expr(&mut self, node: impl crate::ast::Expr) -> CompiledExpr<()> {
        std::mem::forget(node);
        panic!("unexpected compile_expr")
    }

    fn compile_value_expr(&mut self, node: impl crate::ast::ValueExpr) -> crate::filter::CompiledValueExpr<()> {
        std::mem::forget(node);
        panic!("unexpected compile_value_expr")
    }

    fn compile_function_call_expr(
        &mut self,
        node: crate::ast::function_expr::FunctionCallExpr,
    ) -> crate::filter::CompiledValueExpr<()> {
        std::mem::forget(node);
        panic!("unexpected compile_function_call_expr")
    }

    fn compile_function_call_arg_expr(&mut self, node: FunctionCallArgExpr) -> crate::filter::CompiledValueExpr<()> {
        std::mem::forget(node);
        panic!("unexpected compile_function_call_arg_expr")
    }

    fn compile_index_expr(&mut self, node: IndexExpr) -> crate::filter::CompiledValueExpr<()> {
        std::mem::forget(node);
        panic!("unexpected compile_index_expr")
    }
}

fn leaf(scheme: &Scheme) -> LogicalExpr {
    LogicalExpr::Comparison(ComparisonExpr {
        lhs: IndexExpr {
            identifier: IdentifierExpr::Field(field(scheme, 0)),
            indexes: Vec::new(),
        },
        op: ComparisonOpExpr::IsTrue,
    })
}

fn any_op() -> LogicalOp {
    match kani::any::<u8>() % 3 {
        0 => LogicalOp::Or,
        1 => LogicalOp::Xor,
        _ => LogicalOp::And,
    }
}

fn run_one(e: CompiledExpr<()>, scheme: &Scheme) -> bool {
    let ctx = ExecutionContext::<()>::new(scheme);
    let r = match &e {
        CompiledExpr::One(one) => one.execute(&ctx),
        CompiledExpr::Vec(_) => panic!("a combination of single booleans must be a single boolean"),
    };
    std::mem::forget(e);
    std::mem::forget(ctx);
    r
}

/// not x on a single boolean.
#[kani::proof]
#[kani::unwind(3)]
fn unary_not_one__negates() {
    let scheme = scheme_of(&[(Type::Bool, false)], true);
    let b: bool = kani::any();
    let expr = LogicalExpr::Unary {
        op: UnaryOp::Not,
        arg: Box::new(leaf(&scheme)),
    };
    let mut c = Canned { next: 0, vals: [b] };
    let compiled = expr.compile_with_compiler(&mut c);
    assert!(c.next == 1);
    assert!(run_one(compiled, &scheme) == !b, "not negates");
    std::mem::forget(scheme);
}

/// Parentheses are transparent.
#[kani::proof]
#[kani::unwind(3)]
fn parenthesized__transparent() {
    let scheme = scheme_of(&[(Type::Bool, false)], true);
    let b: bool = kani::any();
    let expr = LogicalExpr::Parenthesized(Box::new(ParenthesizedExpr { expr: leaf(&scheme) }));
    let mut c = Canned { next: 0, vals: [b] };
    let compiled = expr.compile_with_compiler(&mut c);
    assert!(c.next == 1);
    assert!(run_one(compiled, &scheme) == b, "parentheses do not change the value");
    std::mem::forget(scheme);
}

/// Binding strength: the parser's precedence climbing compares operators with the
/// derived order; it must be Or < Xor < And (and "no operator" below all).
#[kani::proof]
fn logical_op__precedence_order() {
    assert!(LogicalOp::Or < LogicalOp::Xor && LogicalOp::Xor < LogicalOp::And);
    assert!(None < Some(LogicalOp::Or));
    let a = any_op();
    let b = any_op();
    let rank = |o: LogicalOp| match o {
        LogicalOp::Or => 0,
        LogicalOp::Xor => 1,
        LogicalOp::And => 2,
    };
    assert!((a < b) == (rank(a) < rank(b)));
    assert!((Some(a) <= Some(b)) == (rank(a) <= rank(b)));
}

// ---------------------------------------------------------------------------
// and / or / xor on single booleans: the `Combining` arm of
// `LogicalExpr::compile_with_compiler`, lifted mechanically (kani/extract_arms.py),
// checked against the contract of its compiled children (Canned closures).
use super::extracted;

fn combining_one<const N: usize>() {
    let scheme = scheme_of(&[(Type::Bool, false)], true);
    let vals: [bool; N] = kani::any();
    let op = any_op();
    let mut items = Vec::with_capacity(N);
    let mut i = 0;
    while i < N {
        items.push(leaf(&scheme));
        i += 1;
    }
    let mut c = Canned { next: 0, vals };
    let compiled = extracted::arm_combining(&mut c, op, items);
    assert!(c.next == N, "every operand is compiled exactly once, in order");
    let got = run_one(compiled, &scheme);
    let mut all = true;
    let mut any = false;
    let mut parity = false;
    let mut i = 0;
    while i < N {
        all = all && vals[i];
        any = any || vals[i];
        parity = parity ^ vals[i];
        i += 1;
    }
    let want = match op {
        LogicalOp::And => all,
        LogicalOp::Or => any,
        LogicalOp::Xor => parity,
    };
    assert!(got == want, "and = all operands, or = some operand, xor = odd number of true operands");
    kani::cover!(op == LogicalOp::Xor && got);
    kani::cover!(op == LogicalOp::And && !got);
    std::mem::forget(scheme);
}

#[kani::proof]
#[kani::unwind(5)]
fn combining_one__and_or_xor_n2() {
    combining_one::<2>()
}

#[kani::proof]
#[kani::unwind(6)]
fn combining_one__and_or_xor_n3() {
    combining_one::<3>()
}

// ---------------------------------------------------------------------------
// Precedence climbing on the REAL parser (`LogicalExpr::lex_with`), made reachable by
// replacing the name registry lookup `Scheme::get` by its contract (linear search).
use crate::ast::parse::FilterParser;
use crate::lex::LexWith;
use crate::scheme::verif_kani::common::scheme_named;

/// Reference evaluation of a parsed tree over 4 boolean fields a, b, c, d.
fn eval(e: &LogicalExpr, v: &[bool; 4], depth: u32) -> bool {
    if depth == 0 {
        return false;
    }
    match e {
        LogicalExpr::Comparison(c) => match &c.lhs.identifier {
            IdentifierExpr::Field(f) => v[f.index() & 3],
            _ => false,
        },
        LogicalExpr::Parenthesized(p) => eval(&p.expr, v, depth - 1),
        LogicalExpr::Unary { arg, .. } => !eval(arg, v, depth - 1),
        LogicalExpr::Quantifier { .. } => false,
        LogicalExpr::Combining { op, items } => {
            let mut acc = match op {
                LogicalOp::And => true,
                _ => false,
            };
            let mut i = 0;
            while i < items.len() {
                let x = eval(&items[i], v, depth - 1);
                acc = match op {
                    LogicalOp::And => acc && x,
                    LogicalOp::Or => acc || x,
                    LogicalOp::Xor => acc ^ x,
                };
                i += 1;
            }
            acc
        }
    }
}

#[kani::proof]
#[kani::unwind(8)]
#[kani::stub(crate::scheme::Scheme::get, crate::scheme::verif_kani::common::scheme_get__contract)]
fn parse_precedence__or_and_xor_concrete() {
    let scheme = scheme_named(&[("a", Type::Bool), ("b", Type::Bool), ("c", Type::Bool), ("d", Type::Bool)], true);
    let parser = FilterParser::new(&scheme);
    let r = LogicalExpr::lex_with("a or b and c xor d", &parser);
    let v: [bool; 4] = kani::any();
    match &r {
        Ok((e, rest)) => {
            assert!(rest.is_empty(), "the whole input is consumed");
            // binding strength and > xor > or:  a or ((b and c) xor d)
            assert!(eval(e, &v, 6) == (v[0] || ((v[1] && v[2]) ^ v[3])), "binding strength and > xor > or");
        }
        Err(_) => {
            assert!(false, "a well-typed filter must parse");
        }
    }
    std::mem::forget(r);
    std::mem::forget(scheme);
}
