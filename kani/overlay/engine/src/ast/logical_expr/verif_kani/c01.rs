//! C01 obligations on `LogicalExpr::compile_with_compiler` (single-boolean
//! combinators) and on `LogicalOp`'s derived order.
//!
//! Modularity: the children are compiled by a harness `Compiler` that returns
//! arbitrary closures (their *contract*: "a closure that yields b_i"), so the
//! real combinator code is checked against the children's contracts, not their
//! bodies.
use super::super::*;
use crate::ast::field_expr::{ComparisonOpExpr, IdentifierExpr};
use crate::compiler::Compiler;
use crate::execution_context::ExecutionContext;
use crate::scheme::verif_kani::common::{field, scheme_of};
use crate::scheme::Scheme;

/// Compiles every child to a constant closure yielding the next canned value.
struct Canned<const N: usize> {
    next: usize,
    vals: [bool; N],
}

impl<const N: usize> Compiler for Canned<N> {
    type U = ();

    fn compile_logical_expr(&mut self, node: LogicalExpr) -> CompiledExpr<()> {
        std::mem::forget(node);
        let b = self.vals[self.next];
        self.next += 1;
        CompiledExpr::One(CompiledOneExpr::new(move |_| b))
    }

    fn compile_comparison_expr(&mut self, node: ComparisonExpr) -> CompiledExpr<()> {
        std::mem::forget(node);
        let b = self.vals[self.next];
        self.next += 1;
        CompiledExpr::One(CompiledOneExpr::new(move |_| b))
    }

    // Every other entry point is overridden too: CBMC does not fold the
    // discriminant of niche-encoded enum variants, so the (infeasible) arms of
    // the real `match` are explored symbolically; the defaults would drag the
    // whole compiler into each of them.
    fn compile_expr(&mut self, node: impl crate::ast::Expr) -> CompiledExpr<()> {
        std::mem::forget(node);
        panic!("unexpected compile_expr")
    }

    fn compile_value_expr(&mut self, node: impl crate::ast::ValueExpr) -> crate::filter::CompiledValueExpr<()> {
        std::mem::forget(node);
        panic!("unexpected compile_value_expr")
    }

    fn compile_function_call_expr(
        &mut self,
        node: crate::ast::function_expr::FunctionCallExpr,
    ) -> crate::filter::CompiledValueExpr<()> {
        std::mem::forget(node);
        panic!("unexpected compile_function_call_expr")
    }

    fn compile_function_call_arg_expr(&mut self, node: FunctionCallArgExpr) -> crate::filter::CompiledValueExpr<()> {
        std::mem::forget(node);
        panic!("unexpected compile_function_call_arg_expr")
    }

    fn compile_index_expr(&mut self, node: IndexExpr) -> crate::filter::CompiledValueExpr<()> {
        std::mem::forget(node);
        panic!("unexpected compile_index_expr")
    }
}

fn leaf(scheme: &Scheme) -> LogicalExpr {
    LogicalExpr::Comparison(ComparisonExpr {
        lhs: IndexExpr {
            identifier: IdentifierExpr::Field(field(scheme, 0)),
            indexes: Vec::new(),
        },
        op: ComparisonOpExpr::IsTrue,
    })
}

fn any_op() -> LogicalOp {
    match kani::any::<u8>() % 3 {
        0 => LogicalOp::Or,
        1 => LogicalOp::Xor,
        _ => LogicalOp::And,
    }
}

fn run_one(e: CompiledExpr<()>, scheme: &Scheme) -> bool {
    let ctx = ExecutionContext::<()>::new(scheme);
    let r = match &e {
        CompiledExpr::One(one) => one.execute(&ctx),
        CompiledExpr::Vec(_) => panic!("a combination of single booleans must be a single boolean"),
    };
    std::mem::forget(e);
    std::mem::forget(ctx);
    r
}

/// not x on a single boolean.
#[kani::proof]
#[kani::unwind(3)]
fn unary_not_one__negates() {
    let scheme = scheme_of(&[(Type::Bool, false)], true);
    let b: bool = kani::any();
    let expr = LogicalExpr::Unary {
        op: UnaryOp::Not,
        arg: Box::new(leaf(&scheme)),
    };
    let mut c = Canned { next: 0, vals: [b] };
    let compiled = expr.compile_with_compiler(&mut c);
    assert!(c.next == 1);
    assert!(run_one(compiled, &scheme) == !b, "not negates");
    std::mem::forget(scheme);
}

/// Parentheses are transparent.
#[kani::proof]
#[kani::unwind(3)]
fn parenthesized__transparent() {
    let scheme = scheme_of(&[(Type::Bool, false)], true);
    let b: bool = kani::any();
    let expr = LogicalExpr::Parenthesized(Box::new(ParenthesizedExpr { expr: leaf(&scheme) }));
    let mut c = Canned { next: 0, vals: [b] };
    let compiled = expr.compile_with_compiler(&mut c);
    assert!(c.next == 1);
    assert!(run_one(compiled, &scheme) == b, "parentheses do not change the value");
    std::mem::forget(scheme);
}

/// Binding strength: the parser's precedence climbing compares operators with the
/// derived order; it must be Or < Xor < And (and "no operator" below all).
#[kani::proof]
fn logical_op__precedence_order() {
    assert!(LogicalOp::Or < LogicalOp::Xor && LogicalOp::Xor < LogicalOp::And);
    assert!(None < Some(LogicalOp::Or));
    let a = any_op();
    let b = any_op();
    let rank = |o: LogicalOp| match o {
        LogicalOp::Or => 0,
        LogicalOp::Xor => 1,
        LogicalOp::And => 2,
    };
    assert!((a < b) == (rank(a) < rank(b)));
    assert!((Some(a) <= Some(b)) == (rank(a) <= rank(b)));
}

// NOT REGISTERED (measured in the implementation round, kept as a record):
//  * and/or/xor on single booleans through `extracted::arm_combining` with Canned children,
//    N = 2, 3: no result in 15 min (CBMC explores the infeasible `CompiledExpr::Vec` branch
//    including `dyn Fn` drop glue over every closure).
//  * the real parser (`LogicalExpr::lex_with`) on the CONCRETE input "a or b and c xor d",
//    with `Scheme::get` replaced by its contract (linear search) and `Regex::new` by a
//    must-not-be-reached stub (also with `std::mem::drop` leaked and minisat): no result in 20 min - every failed alternative of the
//    recursive descent drops a `LexErrorKind`, whose drop glue (BTreeSet-backed
//    `ExpectedTypeList`) CBMC explores because the variant tag is not folded.
