//! C07 obligations: operator aliases lex to the same AST node (logical,
//! unary, quantifier operators); `lex_combining_op` is layout-insensitive.
//!
//! Every case is a loop-free assert on a string literal (no symbolic selection
//! of the spelling).  One harness per alias pair: every failed `expect` inside
//! the generated lexer drops a `LexErrorKind`, whose drop glue (BTreeSet of the
//! TypeMismatch variant) CBMC explores although it is dead - ~10 s apiece.
use super::super::*;
use crate::lex::verif_kani::common::is_suffix_at;

/// `<$ty>::lex($s)` is `Ok(($v, rest))` with `rest` = `$s` minus its first `$n` bytes.
macro_rules! lexes {
    ($ty:ty, $s:literal, $n:literal, $v:pat) => {{
        let s: &'static str = $s;
        match <$ty as Lex<'_>>::lex(s) {
            Ok((op, rest)) => {
                assert!(matches!(op, $v), "an alias denotes the same operator as the canonical spelling");
                assert!(is_suffix_at(s, rest, $n), "exactly the operator's characters are consumed");
                kani::cover!(true, "spelling accepted");
            }
            Err(e) => {
                std::mem::forget(e);
                assert!(false, "every documented spelling is accepted");
            }
        }
    }};
}

/// `<$ty>::lex($s)` is an error.
macro_rules! rejects {
    ($ty:ty, $s:literal) => {{
        let r = <$ty as Lex<'_>>::lex($s);
        assert!(r.is_err(), "not an operator spelling");
        kani::cover!(r.is_err(), "rejected");
        std::mem::forget(r);
    }};
}

#[kani::proof]
#[kani::unwind(4)]
fn logical_op__or_aliases() {
    lexes!(LogicalOp, "or", 2, LogicalOp::Or);
    lexes!(LogicalOp, "||", 2, LogicalOp::Or);
    lexes!(LogicalOp, "or x", 2, LogicalOp::Or);
    lexes!(LogicalOp, "|| x", 2, LogicalOp::Or);
    lexes!(LogicalOp, "||x", 2, LogicalOp::Or);
}

#[kani::proof]
#[kani::unwind(5)]
fn logical_op__xor_aliases() {
    lexes!(LogicalOp, "xor", 3, LogicalOp::Xor);
    lexes!(LogicalOp, "^^", 2, LogicalOp::Xor);
    lexes!(LogicalOp, "xor x", 3, LogicalOp::Xor);
    lexes!(LogicalOp, "^^ x", 2, LogicalOp::Xor);
    lexes!(LogicalOp, "^^x", 2, LogicalOp::Xor);
}

#[kani::proof]
#[kani::unwind(5)]
fn logical_op__and_aliases() {
    lexes!(LogicalOp, "and", 3, LogicalOp::And);
    lexes!(LogicalOp, "&&", 2, LogicalOp::And);
    lexes!(LogicalOp, "and x", 3, LogicalOp::And);
    lexes!(LogicalOp, "&& x", 2, LogicalOp::And);
    lexes!(LogicalOp, "&&x", 2, LogicalOp::And);
}

/// A single `|`, `&` or `^` is not a logical operator (`&` is the integer
/// bitwise_and of comparisons).
#[kani::proof]
#[kani::unwind(4)]
fn logical_op__single_char_rejected() {
    rejects!(LogicalOp, "| x");
    rejects!(LogicalOp, "& x");
    rejects!(LogicalOp, "^ x");
}

/// not / !  (and `!` directly followed by `=`-less text is still the unary operator)
#[kani::proof]
#[kani::unwind(5)]
fn unary_op__not_aliases() {
    lexes!(UnaryOp, "not", 3, UnaryOp::Not);
    lexes!(UnaryOp, "!", 1, UnaryOp::Not);
    lexes!(UnaryOp, "not x", 3, UnaryOp::Not);
    lexes!(UnaryOp, "! x", 1, UnaryOp::Not);
    lexes!(UnaryOp, "!x", 1, UnaryOp::Not);
    rejects!(UnaryOp, "x");
}

/// any, all
#[kani::proof]
#[kani::unwind(5)]
fn quantifier_op__any_all() {
    lexes!(QuantifierOp, "any", 3, QuantifierOp::Any);
    lexes!(QuantifierOp, "all", 3, QuantifierOp::All);
    lexes!(QuantifierOp, "any x", 3, QuantifierOp::Any);
    lexes!(QuantifierOp, "all x", 3, QuantifierOp::All);
    lexes!(QuantifierOp, "any(", 3, QuantifierOp::Any);
    lexes!(QuantifierOp, "all(", 3, QuantifierOp::All);
}

/// K3: lex_combining_op skips spaces / CR / LF on both sides of an operator,
/// returns the same operator for both spellings and every layout, and leaves
/// the input untouched when there is no operator.
#[kani::proof]
#[kani::unwind(5)]
fn lex_combining_op__space_insensitive_and() {
    let s = " \n&& \r x";
    let (op, rest) = LogicalExpr::lex_combining_op(s);
    assert!(matches!(op, Some(LogicalOp::And)) && is_suffix_at(s, rest, 7), "spaces and line breaks around the operator are skipped");
    let s = "and x";
    let (op, rest) = LogicalExpr::lex_combining_op(s);
    assert!(matches!(op, Some(LogicalOp::And)) && is_suffix_at(s, rest, 4), "layout and spelling do not change the operator");
    let s = "&&x";
    let (op, rest) = LogicalExpr::lex_combining_op(s);
    assert!(matches!(op, Some(LogicalOp::And)) && is_suffix_at(s, rest, 2));
    kani::cover!(true);
}

#[kani::proof]
#[kani::unwind(5)]
fn lex_combining_op__space_insensitive_or_xor() {
    let s = "\r\n|| x";
    let (op, rest) = LogicalExpr::lex_combining_op(s);
    assert!(matches!(op, Some(LogicalOp::Or)) && is_suffix_at(s, rest, 5));
    let s = " or\nx";
    let (op, rest) = LogicalExpr::lex_combining_op(s);
    assert!(matches!(op, Some(LogicalOp::Or)) && is_suffix_at(s, rest, 4));
    let s = " xor  x";
    let (op, rest) = LogicalExpr::lex_combining_op(s);
    assert!(matches!(op, Some(LogicalOp::Xor)) && is_suffix_at(s, rest, 6));
    let s = "^^x";
    let (op, rest) = LogicalExpr::lex_combining_op(s);
    assert!(matches!(op, Some(LogicalOp::Xor)) && is_suffix_at(s, rest, 2));
    kani::cover!(true);
}

#[kani::proof]
#[kani::unwind(5)]
fn lex_combining_op__no_operator_input_untouched() {
    let s = "  )";
    let (op, rest) = LogicalExpr::lex_combining_op(s);
    assert!(op.is_none() && is_suffix_at(s, rest, 0), "no operator: input untouched");
    let s = "";
    let (op, rest) = LogicalExpr::lex_combining_op(s);
    assert!(op.is_none() && is_suffix_at(s, rest, 0));
    kani::cover!(true);
}

macro_rules! probe {
    ($name:ident, $s:literal, $n:literal, $v:pat) => {
        #[kani::proof]
        #[kani::unwind(4)]
        fn $name() {
            let s: &'static str = $s;
            let r = LogicalOp::lex(s);
            assert!(matches!(&r, Ok(($v, rest)) if is_suffix_at(s, rest, $n)));
            std::mem::forget(r);
        }
    };
}
probe!(probe_1, "or", 2, LogicalOp::Or);
probe!(probe_2, "||", 2, LogicalOp::Or);
probe!(probe_3, "xor", 3, LogicalOp::Xor);
probe!(probe_4, "^^", 2, LogicalOp::Xor);
