//! C07 obligations: operator aliases lex to the same AST node (logical,
//! unary, quantifier operators).
use super::super::*;
use crate::lex::verif_kani::common::is_suffix_at;

fn check<T: for<'i> Lex<'i> + PartialEq>(spelling: &'static str, tail: &'static str, joined: &'static str, want: T) {
    assert!(joined.len() == spelling.len() + tail.len());
    match T::lex(joined) {
        Ok((op, rest)) => {
            assert!(op == want, "an alias denotes the same operator as the canonical spelling");
            assert!(is_suffix_at(joined, rest, spelling.len()), "exactly the operator is consumed");
        }
        Err(e) => {
            std::mem::forget(e);
            assert!(false, "every documented spelling is accepted");
        }
    }
}

macro_rules! spellings {
    ($ty:ty: $($s:literal => $v:expr),* $(,)?) => {{
        $(
            check::<$ty>($s, "", $s, $v);
            check::<$ty>($s, " x", concat!($s, " x"), $v);
            check::<$ty>($s, "(", concat!($s, "("), $v);
        )*
    }};
}

/// and/&&, or/||, xor/^^
#[kani::proof]
#[kani::unwind(8)]
fn logical_op_aliases__same_variant() {
    spellings!(LogicalOp:
        "or" => LogicalOp::Or, "||" => LogicalOp::Or,
        "xor" => LogicalOp::Xor, "^^" => LogicalOp::Xor,
        "and" => LogicalOp::And, "&&" => LogicalOp::And,
    );
    let r = LogicalOp::lex("|");
    assert!(r.is_err());
    std::mem::forget(r);
    let r = LogicalOp::lex("&");
    assert!(r.is_err(), "& alone is not the logical and");
    std::mem::forget(r);
}

/// not/!, any, all
#[kani::proof]
#[kani::unwind(8)]
fn unary_and_quantifier_aliases__same_variant() {
    spellings!(UnaryOp: "not" => UnaryOp::Not, "!" => UnaryOp::Not);
    spellings!(QuantifierOp: "any" => QuantifierOp::Any, "all" => QuantifierOp::All);
}

/// K3: lex_combining_op: skips white space on both sides of an operator and
/// leaves the input untouched when there is none.
#[kani::proof]
#[kani::unwind(8)]
fn lex_combining_op__space_insensitive() {
    let s = " \n&& \r x";
    let (op, rest) = LogicalExpr::lex_combining_op(s);
    assert!(op == Some(LogicalOp::And) && is_suffix_at(s, rest, 7));
    let s2 = "and x";
    let (op2, rest2) = LogicalExpr::lex_combining_op(s2);
    assert!(op2 == Some(LogicalOp::And) && is_suffix_at(s2, rest2, 4), "layout does not change the operator");
    let s3 = "  )";
    let (op3, rest3) = LogicalExpr::lex_combining_op(s3);
    assert!(op3.is_none() && is_suffix_at(s3, rest3, 0), "no operator: input untouched");
}
