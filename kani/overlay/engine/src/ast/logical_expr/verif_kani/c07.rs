//! C07 obligations: operator aliases lex to the same AST node (logical,
//! unary, quantifier operators); `lex_combining_op` is layout-insensitive.
//!
//! Every case is a loop-free assert on a string literal (no symbolic selection
//! of the spelling), one obligation per spelling.
//!
//! `lex::expect` (and `lex::skip_space` in the lex_combining_op obligations) are
//! replaced by loop-free stubs that implement their CONTRACTS
//! (lex/verif_kani/common.rs); the real functions are discharged against the same
//! contracts in lex/verif_kani/c07.rs.  Reason: every `if let Ok(..) = expect(..)`
//! of a `lex_enum!` lexer drops a `Result<&str, LexError>` whose niche-encoded tag
//! CBMC does not fold, so the (dead) drop glue of LexErrorKind - two BTreeSet
//! drops - is explored once per spelling tried; with memcmp's loop in the way the
//! unwind bound cannot be 1 and nothing finishes (measured: > 10 min, 13 GB for
//! `LogicalOp::lex("or")`).
use super::super::*;
use crate::lex::verif_kani::common::is_suffix_at;

/// `<$ty>::lex($s)` is `Ok(($v, rest))` with `rest` = `$s` minus its first `$n` bytes.
macro_rules! lexes {
    ($ty:ty, $s:literal, $n:literal, $v:pat) => {{
        let s: &'static str = $s;
        let r = <$ty as Lex<'_>>::lex(s);
        assert!(r.is_ok(), "every documented spelling is accepted");
        assert!(matches!(&r, Ok(($v, _))), "an alias denotes the same operator as the canonical spelling");
        assert!(matches!(&r, Ok((_, rest)) if is_suffix_at(s, rest, $n)), "exactly the operator's characters are consumed");
        kani::cover!(r.is_ok(), "spelling accepted");
        std::mem::forget(r);
    }};
}

/// `<$ty>::lex($s)` is an error.
macro_rules! rejects {
    ($ty:ty, $s:literal) => {{
        let r = <$ty as Lex<'_>>::lex($s);
        assert!(r.is_err(), "not an operator spelling");
        kani::cover!(r.is_err(), "rejected");
        std::mem::forget(r);
    }};
}

// same, plus std::mem::drop leaking (lex/verif_kani/common.rs::mem_drop__leak): used for
// the spellings deep in the alternative chain, which are 2-4 times faster without std's
// BTreeMap destructor in the dead drop glue.
macro_rules! obligation_leak {
    ($name:ident, $body:block) => {
        #[kani::proof]
        #[kani::unwind(1)]
        #[kani::stub(std::mem::drop, crate::lex::verif_kani::common::mem_drop__leak)]
        #[kani::stub(crate::lex::expect, crate::lex::verif_kani::common::expect__contract)]
        fn $name() $body
    };
}

macro_rules! obligation {
    ($name:ident, $body:block) => {
        #[kani::proof]
        #[kani::unwind(1)]
        #[kani::stub(crate::lex::expect, crate::lex::verif_kani::common::expect__contract)]
        fn $name() $body
    };
}

// --- LogicalOp: or/||, xor/^^, and/&&

obligation!(logical_op__or, {
    lexes!(LogicalOp, "or", 2, LogicalOp::Or);
    lexes!(LogicalOp, "or x", 2, LogicalOp::Or);
    lexes!(LogicalOp, "or(", 2, LogicalOp::Or);
});

obligation!(logical_op__pipe_pipe, {
    lexes!(LogicalOp, "||", 2, LogicalOp::Or);
    lexes!(LogicalOp, "|| x", 2, LogicalOp::Or);
    lexes!(LogicalOp, "||x", 2, LogicalOp::Or);
});

obligation!(logical_op__xor, {
    lexes!(LogicalOp, "xor", 3, LogicalOp::Xor);
    lexes!(LogicalOp, "xor x", 3, LogicalOp::Xor);
});

obligation_leak!(logical_op__caret_caret, {
    lexes!(LogicalOp, "^^", 2, LogicalOp::Xor);
    lexes!(LogicalOp, "^^ x", 2, LogicalOp::Xor);
});

obligation_leak!(logical_op__and, {
    lexes!(LogicalOp, "and", 3, LogicalOp::And);
    lexes!(LogicalOp, "and x", 3, LogicalOp::And);
});

obligation_leak!(logical_op__amp_amp, {
    lexes!(LogicalOp, "&&", 2, LogicalOp::And);
    lexes!(LogicalOp, "&& x", 2, LogicalOp::And);
});

// A single `|` or `&` is not a logical operator (`&` is the integer
// bitwise_and of comparisons).
obligation!(logical_op__single_char_rejected, {
    rejects!(LogicalOp, "| x");
    rejects!(LogicalOp, "& x");
});

// --- UnaryOp: not / !

obligation!(unary_op__not, {
    lexes!(UnaryOp, "not", 3, UnaryOp::Not);
    lexes!(UnaryOp, "not x", 3, UnaryOp::Not);
    lexes!(UnaryOp, "not(", 3, UnaryOp::Not);
});

obligation!(unary_op__bang, {
    lexes!(UnaryOp, "!", 1, UnaryOp::Not);
    lexes!(UnaryOp, "! x", 1, UnaryOp::Not);
    lexes!(UnaryOp, "!x", 1, UnaryOp::Not);
    rejects!(UnaryOp, "x");
});

// --- QuantifierOp: any, all

obligation!(quantifier_op__any, {
    lexes!(QuantifierOp, "any", 3, QuantifierOp::Any);
    lexes!(QuantifierOp, "any x", 3, QuantifierOp::Any);
    lexes!(QuantifierOp, "any(", 3, QuantifierOp::Any);
});

obligation!(quantifier_op__all, {
    lexes!(QuantifierOp, "all", 3, QuantifierOp::All);
    lexes!(QuantifierOp, "all x", 3, QuantifierOp::All);
    lexes!(QuantifierOp, "all(", 3, QuantifierOp::All);
});

// --- K3: lex_combining_op skips spaces / CR / LF on both sides of an operator,
// returns the same operator for both spellings and every layout, and leaves the
// input untouched when there is no operator.

macro_rules! combining {
    ($s:literal, $n:literal, $v:pat) => {{
        let s: &'static str = $s;
        let (op, rest) = LogicalExpr::lex_combining_op(s);
        assert!(matches!(op, $v), "layout and spelling do not change the operator");
        assert!(is_suffix_at(s, rest, $n), "blanks on both sides of the operator are skipped; nothing else is");
        kani::cover!(true, "reached");
    }};
}

macro_rules! combining_obligation {
    ($name:ident, $body:block) => {
        #[kani::proof]
        #[kani::unwind(1)]
        #[kani::stub(crate::lex::expect, crate::lex::verif_kani::common::expect__contract)]
        #[kani::stub(crate::lex::skip_space, crate::lex::verif_kani::common::skip_space__contract)]
        fn $name() $body
    };
}

combining_obligation!(lex_combining_op__or_layouts, {
    combining!("or x", 3, Some(LogicalOp::Or));
    combining!(" \r\nor\n x", 7, Some(LogicalOp::Or));
    combining!("||x", 2, Some(LogicalOp::Or));
    combining!("  ||  x", 6, Some(LogicalOp::Or));
});

combining_obligation!(lex_combining_op__xor_layouts, {
    combining!(" xor x", 5, Some(LogicalOp::Xor));
    combining!("\n^^\nx", 4, Some(LogicalOp::Xor));
});

combining_obligation!(lex_combining_op__and_layouts, {
    combining!("and x", 4, Some(LogicalOp::And));
    combining!(" \n&& \r x", 7, Some(LogicalOp::And));
});

combining_obligation!(lex_combining_op__no_operator_input_untouched, {
    combining!("  )", 0, None);
    combining!("", 0, None);
    // a tab is not white space: no operator is found behind it
    combining!("\tor x", 0, None);
});
