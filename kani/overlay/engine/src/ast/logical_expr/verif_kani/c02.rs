//! C02 obligations: any()/all() reduction (`QuantifierOp::reduce_*`, kernel K5)
//! and the bool-array combinators of `LogicalExpr::compile_with_compiler`
//! (arms lifted mechanically by kani/extract_arms.py): element-wise not,
//! element-wise and/or/xor truncating to the shortest operand, any/all over a
//! compiled bool array, any/all of a directly given (possibly absent) array.
//!
//! Modularity: children are compiled by a harness `Compiler` returning constant
//! closures (their contract: "a closure that yields this bool array"), so the
//! real combinator code is checked against the children's contracts.
use super::super::*;
use super::extracted;
use crate::ast::field_expr::{ComparisonOpExpr, IdentifierExpr};
use crate::compiler::Compiler;
use crate::execution_context::ExecutionContext;
use crate::filter::CompiledValueExpr;
use crate::lhs_types::verif_kani::common::{array_borrowed, array_owned};
use crate::lhs_types::{Array, TypedArray};
use crate::scheme::verif_kani::common::{field, scheme_of};
use crate::scheme::Scheme;

// ---------------------------------------------------------------------------
// K5: the reductions themselves (direct calls)

fn reference<const N: usize>(bs: &[bool; N]) -> (bool, bool) {
    let mut some = false;
    let mut every = true;
    let mut i = 0;
    while i < N {
        some = some || bs[i];
        every = every && bs[i];
        i += 1;
    }
    (some, every)
}

fn bools<const N: usize>(bs: &[bool; N]) -> Vec<LhsValue<'static>> {
    let mut v = Vec::with_capacity(N);
    let mut i = 0;
    while i < N {
        v.push(LhsValue::Bool(bs[i]));
        i += 1;
    }
    v
}

/// any <=> some element true; all <=> every element true (all of empty = true).
fn reduce_iter<const N: usize>() {
    let bs: [bool; N] = kani::any();
    let (some, every) = reference(&bs);
    assert!(QuantifierOp::Any.reduce_bool_iter(bs.iter().copied()) == some, "any() is true iff some element is true");
    assert!(QuantifierOp::All.reduce_bool_iter(bs.iter().copied()) == every, "all() is true iff every element is true");
    if N == 0 {
        assert!(every && !some, "all of an empty result is true, any is false");
    }
    kani::cover!(some && !every || N < 2);
}

#[kani::proof]
#[kani::unwind(2)]
fn quantifier_reduce_bool_iter__any_all_n0() {
    reduce_iter::<0>()
}

#[kani::proof]
#[kani::unwind(3)]
fn quantifier_reduce_bool_iter__any_all_n1() {
    reduce_iter::<1>()
}

#[kani::proof]
#[kani::unwind(6)]
fn quantifier_reduce_bool_iter__any_all_n4() {
    reduce_iter::<4>()
}

/// The same through an Array(Bool) VALUE (direct array argument), borrowed view.
fn reduce<const N: usize>() {
    let bs: [bool; N] = kani::any();
    let (some, every) = reference(&bs);
    let arr = array_owned(Type::Bool, bools(&bs));
    assert!(QuantifierOp::Any.reduce_lhs_array(arr.as_ref()) == some, "any() of an array value");
    assert!(QuantifierOp::All.reduce_lhs_array(arr.as_ref()) == every, "all() of an array value");
    std::mem::forget(arr);
    kani::cover!(some && !every || N < 2);
}

#[kani::proof]
#[kani::unwind(2)]
fn quantifier_reduce__any_all_n0() {
    reduce::<0>()
}

#[kani::proof]
#[kani::unwind(2)]
fn quantifier_reduce__any_all_n1() {
    reduce::<1>()
}

// NOT REGISTERED: no result in 400 s (drop glue of the consumed elements / TypeMismatchError path of bool::try_from)
#[kani::proof]
#[kani::stub(std::mem::drop, crate::lhs_types::verif_kani::common::mem_drop__releases_nothing_observable)]
#[kani::solver(minisat)]
#[kani::unwind(3)]
fn quantifier_reduce__any_all_n2() {
    reduce::<2>()
}

/// The owned representation (the value a compiled index expression hands over).
/// NOT REGISTERED: no result in 300 s.
fn reduce_owned<const N: usize>() {
    let bs: [bool; N] = kani::any();
    let (some, every) = reference(&bs);
    assert!(QuantifierOp::Any.reduce_lhs_array(array_owned(Type::Bool, bools(&bs))) == some);
    assert!(QuantifierOp::All.reduce_lhs_array(array_owned(Type::Bool, bools(&bs))) == every);
    kani::cover!(some && !every);
}

#[kani::proof]
#[kani::stub(std::mem::drop, crate::lhs_types::verif_kani::common::mem_drop__releases_nothing_observable)]
#[kani::unwind(3)]
fn quantifier_reduce__owned_array_n2() {
    reduce_owned::<2>()
}

// ---------------------------------------------------------------------------
// The compiled combinators, against the contract of their compiled children.

/// Compiles child k to a constant closure: bool-array children yield `a`, `b`, `c`
/// (in compile order); an index-expression child yields the array `a` or a typed absence.
struct Canned<const L0: usize, const L1: usize, const L2: usize> {
    next: usize,
    a: [bool; L0],
    b: [bool; L1],
    c: [bool; L2],
    present: bool,
}

fn vec_closure<const L: usize>(row: [bool; L]) -> CompiledExpr<()> {
    CompiledExpr::Vec(CompiledVecExpr::new(move |_| TypedArray::from_iter(row)))
}

impl<const L0: usize, const L1: usize, const L2: usize> Compiler for Canned<L0, L1, L2> {
    type U = ();

    fn compile_logical_expr(&mut self, node: LogicalExpr) -> CompiledExpr<()> {
        std::mem::forget(node);
        let k = self.next;
        self.next += 1;
        match k {
            0 => vec_closure(self.a),
            1 => vec_closure(self.b),
            _ => vec_closure(self.c),
        }
    }

    fn compile_comparison_expr(&mut self, node: ComparisonExpr) -> CompiledExpr<()> {
        std::mem::forget(node);
        panic!("unexpected compile_comparison_expr")
    }

    fn compile_index_expr(&mut self, node: IndexExpr) -> CompiledValueExpr<()> {
        std::mem::forget(node);
        self.next += 1;
        let row = self.a;
        let present = self.present;
        CompiledValueExpr::new(move |_| {
            if present {
                Ok(LhsValue::Array(array_owned(Type::Bool, bools(&row))))
            } else {
                Err(Type::Array(Type::Bool.into()))
            }
        })
    }

    // Every other entry point is overridden too (trap 5: infeasible arms are explored).
    fn compile_expr(&mut self, node: impl crate::ast::Expr) -> CompiledExpr<()> {
        std::mem::forget(node);
        panic!("unexpected compile_expr")
    }

    fn compile_value_expr(&mut self, node: impl crate::ast::ValueExpr) -> CompiledValueExpr<()> {
        std::mem::forget(node);
        panic!("unexpected compile_value_expr")
    }

    fn compile_function_call_expr(&mut self, node: crate::ast::function_expr::FunctionCallExpr) -> CompiledValueExpr<()> {
        std::mem::forget(node);
        panic!("unexpected compile_function_call_expr")
    }

    fn compile_function_call_arg_expr(&mut self, node: FunctionCallArgExpr) -> CompiledValueExpr<()> {
        std::mem::forget(node);
        panic!("unexpected compile_function_call_arg_expr")
    }
}

fn index_leaf(scheme: &Scheme) -> IndexExpr {
    IndexExpr {
        identifier: IdentifierExpr::Field(field(scheme, 0)),
        indexes: Vec::new(),
    }
}

fn leaf(scheme: &Scheme) -> LogicalExpr {
    LogicalExpr::Comparison(ComparisonExpr {
        lhs: index_leaf(scheme),
        op: ComparisonOpExpr::IsTrue,
    })
}

fn run_vec(e: CompiledExpr<()>, scheme: &Scheme) -> TypedArray<'static, bool> {
    let ctx = ExecutionContext::<()>::new(scheme);
    let r = match &e {
        CompiledExpr::Vec(vec) => vec.execute(&ctx),
        CompiledExpr::One(_) => panic!("a combination of bool arrays must be a bool array"),
    };
    std::mem::forget(e);
    std::mem::forget(ctx);
    r
}

fn run_one(e: CompiledExpr<()>, scheme: &Scheme) -> bool {
    let ctx = ExecutionContext::<()>::new(scheme);
    let r = match &e {
        CompiledExpr::One(one) => one.execute(&ctx),
        CompiledExpr::Vec(_) => panic!("any()/all() yields a single boolean"),
    };
    std::mem::forget(e);
    std::mem::forget(ctx);
    r
}

fn apply(op: LogicalOp, x: bool, y: bool) -> bool {
    match op {
        LogicalOp::And => x && y,
        LogicalOp::Or => x || y,
        LogicalOp::Xor => x ^ y,
    }
}

fn min2(x: usize, y: usize) -> usize {
    if x < y { x } else { y }
}

/// `a op b [op c]` on bool arrays of constant lengths L0, L1 [, L2]: element i of
/// the result is a[i] op b[i] [op c[i]], the length is the shortest operand's.
fn combining_vec<const N: usize, const L0: usize, const L1: usize, const L2: usize>(op: LogicalOp) {
    let scheme = scheme_of(&[(Type::Bool, false)], true);
    let a: [bool; L0] = kani::any();
    let b: [bool; L1] = kani::any();
    let c: [bool; L2] = kani::any();
    let mut items = Vec::with_capacity(N);
    let mut i = 0;
    while i < N {
        items.push(leaf(&scheme));
        i += 1;
    }
    let mut comp = Canned { next: 0, a, b, c, present: true };
    let compiled = extracted::arm_combining(&mut comp, op, items);
    assert!(comp.next == N, "every operand is compiled exactly once");
    let out = run_vec(compiled, &scheme);
    let want_len = if N == 2 { min2(L0, L1) } else { min2(min2(L0, L1), L2) };
    assert!(out.len() == want_len, "the result is truncated to the shortest operand");
    let mut it = out.iter();
    let mut i = 0;
    while i < want_len {
        let mut w = apply(op, a[i], b[i]);
        if N > 2 {
            w = apply(op, w, c[i]);
        }
        match it.next() {
            Some(g) => {
                assert!(*g == w, "and/or/xor act element-wise");
            }
            None => {
                assert!(false, "the result is truncated to the shortest operand, not shorter");
            }
        }
        i += 1;
    }
    kani::cover!(true);
    std::mem::forget(it);
    std::mem::forget(out);
    std::mem::forget(scheme);
}

// NOT REGISTERED (all combining_vec__*): no result in 400 s even for operand lengths (1,0), (0,1), (1,1).
macro_rules! combining {
    ($name:ident, $unwind:literal, $n:literal, $l0:literal, $l1:literal, $l2:literal, $op:expr) => {
        #[kani::proof]
        #[kani::stub(std::mem::drop, crate::lhs_types::verif_kani::common::mem_drop__releases_nothing_observable)]
        #[kani::unwind($unwind)]
        fn $name() {
            combining_vec::<$n, $l0, $l1, $l2>($op)
        }
    };
}

combining!(combining_vec__or_1_0, 3, 2, 1, 0, 0, LogicalOp::Or);
combining!(combining_vec__and_1_0, 3, 2, 1, 0, 0, LogicalOp::And);
combining!(combining_vec__xor_1_0, 3, 2, 1, 0, 0, LogicalOp::Xor);
combining!(combining_vec__or_0_1, 3, 2, 0, 1, 0, LogicalOp::Or);
combining!(combining_vec__or_1_1, 3, 2, 1, 1, 0, LogicalOp::Or);
combining!(combining_vec__or_2_1, 3, 2, 2, 1, 0, LogicalOp::Or);
combining!(combining_vec__and_2_1, 3, 2, 2, 1, 0, LogicalOp::And);
combining!(combining_vec__xor_2_1, 3, 2, 2, 1, 0, LogicalOp::Xor);
combining!(combining_vec__or_1_2, 3, 2, 1, 2, 0, LogicalOp::Or);
combining!(combining_vec__and_1_2, 3, 2, 1, 2, 0, LogicalOp::And);
combining!(combining_vec__xor_1_2, 3, 2, 1, 2, 0, LogicalOp::Xor);
combining!(combining_vec__or_2_2_1, 4, 3, 2, 2, 1, LogicalOp::Or);
combining!(combining_vec__and_2_2_1, 4, 3, 2, 2, 1, LogicalOp::And);
combining!(combining_vec__xor_2_2_1, 4, 3, 2, 2, 1, LogicalOp::Xor);

/// `not v` on a bool array: element-wise negation, same length.
fn not_vec<const L: usize>() {
    let scheme = scheme_of(&[(Type::Bool, false)], true);
    let a: [bool; L] = kani::any();
    let mut comp = Canned { next: 0, a, b: [false; 0], c: [false; 0], present: true };
    let compiled = extracted::arm_unary_not(&mut comp, Box::new(leaf(&scheme)));
    assert!(comp.next == 1);
    let out = run_vec(compiled, &scheme);
    assert!(out.len() == L, "not keeps the length");
    let mut it = out.iter();
    let mut i = 0;
    while i < L {
        assert!(it.next().copied() == Some(!a[i]), "not acts element-wise");
        i += 1;
    }
    kani::cover!(true);
    std::mem::forget(it);
    std::mem::forget(out);
    std::mem::forget(scheme);
}

#[kani::proof]
#[kani::stub(std::mem::drop, crate::lhs_types::verif_kani::common::mem_drop__releases_nothing_observable)]
#[kani::unwind(3)]
fn unary_not_vec__elementwise_n2() {
    not_vec::<2>()
}

#[kani::proof]
#[kani::stub(std::mem::drop, crate::lhs_types::verif_kani::common::mem_drop__releases_nothing_observable)]
#[kani::unwind(2)]
fn unary_not_vec__elementwise_n0() {
    not_vec::<0>()
}

/// any(e) / all(e) where e compiles to a bool array of length L.
/// NOT REGISTERED (quantifier_logical__*, quantifier_direct__*): CBMC out of memory (13.8 GB) at length 0.
fn quantifier_logical<const L: usize>() {
    let scheme = scheme_of(&[(Type::Bool, false)], true);
    let a: [bool; L] = kani::any();
    let (some, every) = reference(&a);
    let is_any: bool = kani::any();
    let op = if is_any { QuantifierOp::Any } else { QuantifierOp::All };
    let mut comp = Canned { next: 0, a, b: [false; 0], c: [false; 0], present: true };
    let arg = Box::new(QuantifierArgExpr::Logical(leaf(&scheme)));
    let compiled = extracted::arm_quantifier(&mut comp, op, arg);
    assert!(comp.next == 1);
    let got = run_one(compiled, &scheme);
    assert!(got == if is_any { some } else { every }, "any: some element true; all: every element true (all of an empty result is true)");
    kani::cover!(is_any && got);
    kani::cover!(!is_any && got);
    std::mem::forget(scheme);
}

#[kani::proof]
#[kani::stub(std::mem::drop, crate::lhs_types::verif_kani::common::mem_drop__releases_nothing_observable)]
#[kani::unwind(3)]
fn quantifier_logical__any_all_n2() {
    quantifier_logical::<2>()
}

#[kani::proof]
#[kani::stub(std::mem::drop, crate::lhs_types::verif_kani::common::mem_drop__releases_nothing_observable)]
#[kani::unwind(2)]
fn quantifier_logical__any_all_n0() {
    quantifier_logical::<0>()
}

/// any(x) / all(x) where x is an Array(Bool) VALUE: present => the reduction of its
/// elements; absent => false for both any and all.
fn quantifier_direct<const L: usize>() {
    let scheme = scheme_of(&[(Type::Array(Type::Bool.into()), false)], true);
    let a: [bool; L] = kani::any();
    let (some, every) = reference(&a);
    let is_any: bool = kani::any();
    let present: bool = kani::any();
    let op = if is_any { QuantifierOp::Any } else { QuantifierOp::All };
    let mut comp = Canned { next: 0, a, b: [false; 0], c: [false; 0], present };
    let arg = Box::new(QuantifierArgExpr::IndexExpr(index_leaf(&scheme)));
    let compiled = extracted::arm_quantifier(&mut comp, op, arg);
    assert!(comp.next == 1);
    let got = run_one(compiled, &scheme);
    let want = if !present {
        false
    } else if is_any {
        some
    } else {
        every
    };
    assert!(got == want, "any/all of an array value; applied to an absent value both are false");
    kani::cover!(!present && !is_any, "all() of an absent array");
    kani::cover!(present && !is_any && got);
    std::mem::forget(scheme);
}

#[kani::proof]
#[kani::stub(std::mem::drop, crate::lhs_types::verif_kani::common::mem_drop__releases_nothing_observable)]
#[kani::unwind(3)]
fn quantifier_direct__present_or_absent_n2() {
    quantifier_direct::<2>()
}

#[kani::proof]
#[kani::stub(std::mem::drop, crate::lhs_types::verif_kani::common::mem_drop__releases_nothing_observable)]
#[kani::unwind(2)]
fn quantifier_direct__present_or_absent_n0() {
    quantifier_direct::<0>()
}
