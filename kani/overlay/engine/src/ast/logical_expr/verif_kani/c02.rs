//! C02 obligations: any()/all() reduction.
use super::super::*;
use crate::lhs_types::Array;

/// any <=> some element true; all <=> every element true (all of empty = true).
fn reduce<const N: usize>() {
    let bs: [bool; N] = kani::any();
    let mut some = false;
    let mut every = true;
    let mut i = 0;
    while i < N {
        some = some || bs[i];
        every = every && bs[i];
        i += 1;
    }
    assert!(QuantifierOp::Any.reduce_bool_iter(bs.iter().copied()) == some, "any() is true iff some element is true");
    assert!(QuantifierOp::All.reduce_bool_iter(bs.iter().copied()) == every, "all() is true iff every element is true");
    // the same through an Array(Bool) value (direct array argument)
    let mut v = Vec::with_capacity(N);
    let mut i = 0;
    while i < N {
        v.push(LhsValue::Bool(bs[i]));
        i += 1;
    }
    let arr = Array::try_from_vec(Type::Bool, v).unwrap();
    assert!(QuantifierOp::Any.reduce_lhs_array(arr.as_ref()) == some);
    assert!(QuantifierOp::All.reduce_lhs_array(arr.as_ref()) == every);
    std::mem::forget(arr);
    if N == 0 {
        assert!(every && !some, "all of an empty result is true, any is false");
    }
}

#[kani::proof]
#[kani::unwind(4)]
fn quantifier_reduce__any_all_n0() {
    reduce::<0>()
}

#[kani::proof]
#[kani::unwind(5)]
fn quantifier_reduce__any_all_n1() {
    reduce::<1>()
}

#[kani::proof]
#[kani::unwind(7)]
fn quantifier_reduce__any_all_n3() {
    reduce::<3>()
}
