//! C04 obligation on the quantifier argument check (`<QuantifierArgExpr as LexWith>::lex_with`,
//! logical_expr.rs): the argument of any()/all() must have type Array(Bool) - a Map(Bool), a
//! plain Bool, an Array(Int) or a literal are refused.  The check (everything after the
//! recursive-descent call) is lifted mechanically (kani/extract_arms.py, gen_tails).
use super::super::*;
use super::extracted_tails::quantifier_arg_lex_with__tail;
use crate::ast::field_expr::verif_kani::common::{field_lhs, LHS_TYPE};
use crate::scheme::verif_kani::common::scheme_of;
use crate::types::RhsValue;

macro_rules! tail_obligation {
    ($name:ident, $body:block) => {
        #[kani::proof]
        #[kani::unwind(2)]
        #[kani::stub(<crate::ast::index_expr::IndexExpr as crate::types::GetType>::get_type, crate::ast::field_expr::verif_kani::common::index_expr_get_type__contract)]
        #[kani::stub(<crate::types::ExpectedTypeList as std::convert::From<crate::types::Type>>::from, crate::types::verif_kani::common::expected_type_list_of__contract)]
        #[kani::stub(std::mem::drop, crate::ast::field_expr::verif_kani::common::mem_drop__leak)]
        fn $name() $body
    };
}

fn quantifier_arg_case(ty: Type, must_be_accepted: bool) {
    let scheme = scheme_of(&[(ty, false)], true);
    let parser = FilterParser::new(&scheme);
    unsafe {
        LHS_TYPE = Some(ty);
    }
    let arg = FunctionCallArgExpr::IndexExpr(field_lhs(&scheme, 0));
    let r = quantifier_arg_lex_with__tail("f)", &parser, arg, ")");
    match &r {
        Ok((QuantifierArgExpr::IndexExpr(_), rest)) => {
            assert!(must_be_accepted, "only a boolean ARRAY may be quantified");
            assert!(rest.len() == 1);
        }
        Ok(_) => {
            assert!(false, "an index expression argument stays an index expression");
        }
        Err((LexErrorKind::TypeMismatch(_), _)) => {
            assert!(!must_be_accepted, "an Array(Bool) argument must be accepted");
        }
        Err(_) => {
            assert!(false, "unexpected error kind");
        }
    }
    std::mem::forget(r);
    std::mem::forget(scheme);
}

tail_obligation!(quantifier_arg__array_of_bool_is_accepted, { quantifier_arg_case(Type::Array(Type::Bool.into()), true) });
tail_obligation!(quantifier_arg__map_of_bool_is_refused, { quantifier_arg_case(Type::Map(Type::Bool.into()), false) });
tail_obligation!(quantifier_arg__plain_bool_is_refused, { quantifier_arg_case(Type::Bool, false) });
tail_obligation!(quantifier_arg__array_of_int_is_refused, { quantifier_arg_case(Type::Array(Type::Int.into()), false) });
tail_obligation!(quantifier_arg__literal_is_refused, {
    let scheme = scheme_of(&[(Type::Int, false)], true);
    let parser = FilterParser::new(&scheme);
    let r = quantifier_arg_lex_with__tail("1)", &parser, FunctionCallArgExpr::Literal(RhsValue::Int(kani::any())), ")");
    assert!(matches!(&r, Err((LexErrorKind::TypeMismatch(_), _))), "a literal cannot be quantified");
    std::mem::forget(r);
    std::mem::forget(scheme);
});
