//! C15 obligations on the C-API type encoding (ffi/src/lib.rs): `CType` is the
//! same packed form as the engine's `CompoundType`, and converting to / from the
//! recursive `Type` is the identity on every type both can represent.
use super::super::*;
use super::common::*;
use wirefilter::Type;

/// CType::push on a well-formed value with room left: the new layer becomes
/// bit 0 (outermost), every older layer is kept, primitive unchanged.
#[kani::proof]
fn ctype_push__contract() {
    let c = any_ctype_wf();
    kani::assume(c.len < 32);
    let l = any_layer();
    let bit = layer_bit(&l);
    let r = c.push(l);
    assert!(ctype_wf(&r), "push keeps well-formedness");
    assert!(r.len == c.len + 1, "push adds exactly one layer");
    assert!(r.primitive == c.primitive, "push keeps the primitive");
    assert!(r.layers & 1 == bit, "pushed layer is the outermost");
    assert!(r.layers >> 1 == c.layers, "push keeps all inner layers");
    kani::cover!(c.len == 31);
    kani::cover!(c.len == 0);
}

/// CType::pop is the inverse.
#[kani::proof]
fn ctype_pop__contract() {
    let c = any_ctype_wf();
    let (r, l) = c.pop();
    match l {
        None => {
            assert!(c.len == 0 && r == c, "pop leaves a primitive unchanged");
            kani::cover!(true);
        }
        Some(l) => {
            assert!(c.len > 0);
            assert!(ctype_wf(&r));
            assert!(r.len == c.len - 1 && r.primitive == c.primitive);
            assert!(layer_bit(&l) == c.layers & 1, "pop returns the outermost layer");
            assert!(r.layers == c.layers >> 1, "pop keeps all inner layers");
            assert!(r.push(l) == c, "push(pop(c)) == c");
            kani::cover!(c.len == 32);
        }
    }
}

/// The create_* entry points of the C API are exactly new/push.
#[kani::proof]
fn create_type_entry_points__contract() {
    let c = any_ctype_wf();
    kani::assume(c.len < 32);
    let a = wirefilter_create_array_type(c);
    let m = wirefilter_create_map_type(c);
    assert!(a.len == c.len + 1 && a.layers == c.layers << 1 && a.primitive == c.primitive);
    assert!(m.len == c.len + 1 && m.layers == (c.layers << 1) | 1 && m.primitive == c.primitive);
    let p = wirefilter_create_primitive_type(CPrimitiveType::Int);
    assert!(p.len == 0 && p.layers == 0 && p.primitive == 3);
}

fn head_agrees(c: &CType, t: &Type) -> bool {
    match t {
        Type::Array(_) => c.len > 0 && c.layers & 1 == 0,
        Type::Map(_) => c.len > 0 && c.layers & 1 == 1,
        Type::Ip => c.len == 0 && c.primitive == 1,
        Type::Bytes => c.len == 0 && c.primitive == 2,
        Type::Int => c.len == 0 && c.primitive == 3,
        Type::Bool => c.len == 0 && c.primitive == 4,
    }
}

/// packed C form -> recursive form -> packed C form is the identity, and the
/// recursive form's head is the packed form's outermost layer, for every
/// well-formed CType with at most N layers (all layer bits, all primitives).
fn ctype_type_ctype<const N: u8>() {
    let c = any_ctype_wf();
    kani::assume(c.len <= N);
    let t = Type::from(c);
    assert!(head_agrees(&c, &t), "engine and C API agree on the outermost layer");
    let back = CType::from(t);
    assert!(back == c, "CType -> Type -> CType is the identity");
    kani::cover!(c.len == N);
    kani::cover!(c.len == 0);
}

#[kani::proof]
#[kani::unwind(4)]
fn ctype_type_ctype__roundtrip_len2() {
    ctype_type_ctype::<2>()
}

#[kani::proof]
#[kani::unwind(6)]
fn ctype_type_ctype__roundtrip_len4() {
    ctype_type_ctype::<4>()
}

#[kani::proof]
#[kani::unwind(10)]
fn ctype_type_ctype__roundtrip_len8() {
    ctype_type_ctype::<8>()
}

fn any_type<const N: usize>() -> Type {
    let mut t = match kani::any::<u8>() & 3 {
        0 => Type::Bool,
        1 => Type::Bytes,
        2 => Type::Int,
        _ => Type::Ip,
    };
    let n: usize = kani::any();
    kani::assume(n <= N);
    let mut i = 0;
    while i < N {
        if i < n {
            t = if kani::any() { Type::Array(t.into()) } else { Type::Map(t.into()) };
        }
        i += 1;
    }
    t
}

/// recursive form -> packed C form -> recursive form is the identity for every
/// type with at most N container layers (built through the public constructors).
fn type_ctype_type<const N: usize>() {
    let t = any_type::<N>();
    let c = CType::from(t);
    assert!(ctype_wf(&c), "From<Type> yields a well-formed CType");
    assert!(head_agrees(&c, &t));
    assert!(Type::from(c) == t, "Type -> CType -> Type is the identity");
    kani::cover!(c.len as usize == N);
}

#[kani::proof]
#[kani::unwind(5)]
fn type_ctype_type__roundtrip_len3() {
    type_ctype_type::<3>()
}

#[kani::proof]
#[kani::unwind(8)]
fn type_ctype_type__roundtrip_len6() {
    type_ctype_type::<6>()
}
