//! C20 obligations on ffi/src/lib.rs itself (what is reachable under CBMC besides
//! the CString kernel in cstring/verif_kani/c20.rs): the thread-local last-error
//! entry points, the type constructors of the C API against the Rust `Type`
//! constructors, the status constants of the match result.
use super::super::*;
use super::common::*;
use wirefilter::Type;

// NOT REACHABLE (kept as a note, not as code): an obligation driving `write_last_error!` +
// `wirefilter_get_last_error` + `wirefilter_clear_last_error` through the real thread-local
// LAST_ERROR, and one driving `to_str!`'s failure path (`wirefilter_add_int_value_to_execution_context`
// with a non-UTF-8 name).  kani-compiler 0.68 crashes (intrinsics.rs:243) on any harness that
// reaches a `thread_local!` with a destructor, so the thread-locality of the message and the
// "every failure writes a message" clause stay unverified.

fn prim_type(p: CPrimitiveType) -> Type {
    match p {
        CPrimitiveType::Ip => Type::Ip,
        CPrimitiveType::Bytes => Type::Bytes,
        CPrimitiveType::Int => Type::Int,
        CPrimitiveType::Bool => Type::Bool,
    }
}

/// A type built through the C API (`wirefilter_create_primitive_type` followed by
/// N symbolic choices of `wirefilter_create_array_type` / `_map_type`) denotes the
/// same `Type` as the Rust constructors applied in the same order, in both
/// directions of the conversion used by every C entry point that takes a CType.
fn c_api_types_mirror_rust_types<const N: usize>() {
    let tag: u8 = kani::any();
    kani::assume(tag >= 1 && tag <= 4);
    let p = match tag {
        1 => CPrimitiveType::Ip,
        2 => CPrimitiveType::Bytes,
        3 => CPrimitiveType::Int,
        _ => CPrimitiveType::Bool,
    };
    let mut c = wirefilter_create_primitive_type(p);
    let mut t = prim_type(p);
    let mut maps = 0usize;
    let mut i = 0;
    while i < N {
        if kani::any() {
            c = wirefilter_create_array_type(c);
            t = Type::Array(t.into());
        } else {
            c = wirefilter_create_map_type(c);
            t = Type::Map(t.into());
            maps += 1;
        }
        i += 1;
    }
    assert!(ctype_wf(&c), "the C API builds well-formed type descriptors");
    assert!(c.len as usize == N && c.primitive == tag);
    assert!(Type::from(c) == t, "C-built type == Rust-built type");
    assert!(CType::from(t) == c, "Rust type -> C descriptor is the C-built descriptor");
    kani::cover!(maps == N, "all layers are maps");
    kani::cover!(maps == 0, "all layers are arrays");
    kani::cover!(N < 3 || (maps > 0 && maps < N), "mixed layers");
}

#[kani::proof]
#[kani::unwind(4)]
fn c_api_types_mirror_rust_types__layers1() {
    c_api_types_mirror_rust_types::<1>()
}

#[kani::proof]
#[kani::unwind(5)]
fn c_api_types_mirror_rust_types__layers3() {
    c_api_types_mirror_rust_types::<3>()
}

#[kani::proof]
#[kani::unwind(7)]
fn c_api_types_mirror_rust_types__layers5() {
    c_api_types_mirror_rust_types::<5>()
}

/// The result constants `wirefilter_match` returns: a scheme mismatch is an error
/// status, a caught panic is the panic status, neither claims a match.
#[kani::proof]
fn matching_result_constants__status() {
    assert!(MatchingResult::ERROR.status == Status::Error && !MatchingResult::ERROR.matched);
    assert!(MatchingResult::PANIC.status == Status::Panic && !MatchingResult::PANIC.matched, "a panic inside match is reported as a panic status");
    assert!(Status::Success as u32 == 0 && Status::Error as u32 == 1 && Status::Panic as u32 == 2, "status values of wirefilter.h");
    kani::cover!(true);
}
