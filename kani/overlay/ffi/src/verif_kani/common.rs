//! Shared helpers for the ffi-crate obligations (overlaid by /verif/bin/check).
use super::super::*;

/// wf(c): at most 32 layers, no stray bits above `len`, a valid primitive tag.
pub(crate) fn ctype_wf(c: &CType) -> bool {
    c.len <= 32 && (c.len == 32 || (c.layers >> c.len) == 0) && c.primitive >= 1 && c.primitive <= 4
}

pub(crate) fn any_ctype_wf() -> CType {
    let c = CType {
        layers: kani::any(),
        len: kani::any(),
        primitive: kani::any(),
    };
    kani::assume(ctype_wf(&c));
    c
}

pub(crate) fn any_layer() -> Layer {
    if kani::any() { Layer::Array } else { Layer::Map }
}

pub(crate) fn layer_bit(l: &Layer) -> u32 {
    match l {
        Layer::Array => 0,
        Layer::Map => 1,
    }
}

/// Canary: a false postcondition about the real `CType::push` that MUST be refuted.
#[kani::proof]
fn canary__must_fail() {
    let c = any_ctype_wf();
    kani::assume(c.len < 32);
    let r = c.push(Layer::Map);
    assert!(r.layers == c.layers, "CANARY: CType::push(Map) never changes the layer bits");
}
