//! C20 obligations (one clause only): the last-error buffer is empty, or a
//! NUL-terminated string without interior NUL bytes.
//!
//! Abstract view of `CString(v)`: the byte sequence `v`.  Invariant I(v): v is
//! empty ("no error"), or v.last() == 0 and no other byte of v is 0.  Every
//! contract below is stated from a symbolic pre-state satisfying I, so a
//! sequence of writes is covered by induction over operations (within the
//! stated buffer lengths).
use super::super::*;

/// I(v): v is empty, or v.last() == 0 and no other byte is 0.
fn inv(v: &[u8]) -> bool {
    if v.is_empty() {
        return true;
    }
    let n = v.len();
    if v[n - 1] != 0 {
        return false;
    }
    let mut i = 0;
    while i + 1 < n {
        if v[i] == 0 {
            return false;
        }
        i += 1;
    }
    true
}

/// A symbolic pre-state satisfying I with exactly P content bytes (P = 0 means
/// the empty buffer, i.e. "no error").
fn any_state<const P: usize>() -> CString {
    let mut v = Vec::with_capacity(P + 1);
    if P > 0 {
        let mut i = 0;
        while i < P {
            let b: u8 = kani::any();
            kani::assume(b != 0);
            v.push(b);
            i += 1;
        }
        v.push(0);
    }
    CString(v)
}

fn snapshot<const P: usize>(s: &CString) -> [u8; P] {
    let mut o = [0u8; P];
    let mut i = 0;
    while i < P {
        o[i] = s.0[i];
        i += 1;
    }
    o
}

/// The postcondition of one append of `buf` to a state whose content was `old`.
fn append_post<const P: usize, const L: usize>(s: &CString, old: &[u8; P], buf: &[u8; L]) {
    let v = &s.0;
    assert!(inv(v), "last-error stays NUL-terminated without interior NUL");
    assert!(v.len() == P + L + 1, "old content + new bytes + one terminator");
    let mut i = 0;
    while i < P {
        assert!(v[i] == old[i], "previous content is preserved by append");
        i += 1;
    }
    let mut i = 0;
    while i < L {
        let want = if buf[i] == 0 { 0x1a } else { buf[i] };
        assert!(v[P + i] == want, "bytes are copied; every NUL becomes 0x1a");
        i += 1;
    }
    assert!(!s.as_c_str().is_null(), "a non-empty message is reported");
    assert!(s.as_c_str() as *const u8 == s.0.as_ptr(), "the C pointer is the start of the buffer");
}

fn count_nul<const L: usize>(buf: &[u8; L]) -> usize {
    let mut n = 0;
    let mut i = 0;
    while i < L {
        if buf[i] == 0 {
            n += 1;
        }
        i += 1;
    }
    n
}

/// K1 (io::Write::write -> append): from any state satisfying I with P content
/// bytes, appending ANY L bytes (all symbolic, so every placement of 0, 1, .. L
/// NUL bytes is in the domain) re-establishes I, keeps the old content, copies
/// the bytes with every NUL replaced by 0x1a and reports L bytes written.
fn append_contract<const P: usize, const L: usize>() {
    let mut s = any_state::<P>();
    let old = snapshot::<P>(&s);
    let buf: [u8; L] = kani::any();
    {
        use std::io::Write;
        let r = s.write(&buf);
        assert!(matches!(r, Ok(n) if n == L), "write reports the whole chunk as written");
        std::mem::forget(r);
        assert!(s.flush().is_ok());
    }
    append_post::<P, L>(&s, &old, &buf);
    let nuls = count_nul::<L>(&buf);
    kani::cover!(nuls == 0, "no NUL in the appended text");
    if L > 0 {
        kani::cover!(nuls == 1, "one NUL in the appended text");
        kani::cover!(nuls == L, "only NUL bytes appended");
    }
    if L > 1 {
        kani::cover!(buf[0] == 0 && buf[L - 1] == 0, "first and last appended byte are NUL");
        kani::cover!(buf[0] != 0 && buf[L - 1] == 0, "a NUL that is not the first of the chunk");
    }
    std::mem::forget(s);
}

macro_rules! append_harness {
    ($($name:ident: $p:literal, $l:literal, $u:literal;)*) => {
        $(
            #[kani::proof]
            #[kani::unwind($u)]
            fn $name() {
                append_contract::<$p, $l>()
            }
        )*
    };
}

append_harness! {
    cstring_append__invariant_p0_l0: 0, 0, 4;
    cstring_append__invariant_p1_l0: 1, 0, 4;
    cstring_append__invariant_p0_l1: 0, 1, 4;
    cstring_append__invariant_p0_l2: 0, 2, 5;
    cstring_append__invariant_p2_l2: 2, 2, 7;
    cstring_append__invariant_p1_l3: 1, 3, 7;
    cstring_append__invariant_p3_l4: 3, 4, 10;
    cstring_append__invariant_p3_l6: 3, 6, 12;
}

/// K1 through the other entry point (fmt::Write::write_str -> append): any
/// ASCII text of L bytes (NUL included - "\0" is valid UTF-8).
fn write_str_contract<const P: usize, const L: usize>() {
    use std::fmt::Write;
    let mut s = any_state::<P>();
    let old = snapshot::<P>(&s);
    let buf: [u8; L] = kani::any();
    let mut i = 0;
    while i < L {
        kani::assume(buf[i] < 128);
        i += 1;
    }
    let text = unsafe { std::str::from_utf8_unchecked(&buf) };
    let r = s.write_str(text);
    assert!(r.is_ok(), "write_str never fails");
    append_post::<P, L>(&s, &old, &buf);
    let nuls = count_nul::<L>(&buf);
    kani::cover!(nuls == 0);
    if L > 1 {
        kani::cover!(nuls == L, "text made of NUL characters only");
    }
    std::mem::forget(s);
}

#[kani::proof]
#[kani::unwind(5)]
fn cstring_write_str__invariant_p0_l2() {
    write_str_contract::<0, 2>()
}

#[kani::proof]
#[kani::unwind(8)]
fn cstring_write_str__invariant_p2_l3() {
    write_str_contract::<2, 3>()
}

/// Two consecutive chunks (the way `write!` delivers a formatted message piece
/// by piece): the terminator of the first is removed, exactly one remains.
#[kani::proof]
#[kani::unwind(8)]
fn cstring_append_twice__single_terminator() {
    use std::io::Write;
    let mut s = any_state::<1>();
    let old = snapshot::<1>(&s);
    let a: [u8; 2] = kani::any();
    let b: [u8; 2] = kani::any();
    let r = s.write(&a);
    std::mem::forget(r);
    let r = s.write(&b);
    std::mem::forget(r);
    let v = &s.0;
    assert!(inv(v), "last-error stays NUL-terminated without interior NUL");
    assert!(v.len() == 6 && v[0] == old[0]);
    let mut i = 0;
    while i < 2 {
        assert!(v[1 + i] == if a[i] == 0 { 0x1a } else { a[i] });
        assert!(v[3 + i] == if b[i] == 0 { 0x1a } else { b[i] });
        i += 1;
    }
    kani::cover!(a[1] == 0 && b[0] == 0 && b[1] == 0);
    std::mem::forget(s);
}

/// K2: clear() => empty; as_c_str() is NULL <=> empty.
#[kani::proof]
#[kani::unwind(6)]
fn cstring_clear__null_iff_empty() {
    let mut s = any_state::<2>();
    assert!(!s.as_c_str().is_null());
    s.clear();
    assert!(s.0.is_empty() && s.as_c_str().is_null(), "cleared last-error reads as NULL");
    assert!(inv(&s.0));
    let e = CString::new();
    assert!(e.as_c_str().is_null() && inv(&e.0));
    let d = CString::default();
    assert!(d.as_c_str().is_null() && inv(&d.0));
    kani::cover!(true);
    std::mem::forget(s);
}

/// K3: the shape of write_last_error!: clear, then write_str of a message
/// containing a NUL: the previous message is gone and I holds.
#[kani::proof]
#[kani::unwind(8)]
fn cstring_write_last_error_shape__replaces_and_keeps_invariant() {
    use std::fmt::Write;
    let mut s = any_state::<2>();
    let b: u8 = kani::any();
    kani::assume(b < 128);
    let bytes = [b'e', b, b'!'];
    let msg = unsafe { std::str::from_utf8_unchecked(&bytes) };
    s.clear();
    let r = s.write_str(msg);
    assert!(r.is_ok());
    assert!(inv(&s.0));
    assert!(s.0.len() == 4 && s.0[0] == b'e' && s.0[2] == b'!', "the previous message is replaced, not appended to");
    assert!(s.0[1] == if b == 0 { 0x1a } else { b });
    // a second write appends in front of a single terminator
    let r = s.write_str("x");
    assert!(r.is_ok());
    assert!(inv(&s.0) && s.0.len() == 5 && s.0[3] == b'x');
    kani::cover!(b == 0);
    kani::cover!(b != 0);
    std::mem::forget(s);
}

// NOT REGISTERED (removed): the same through `write!(s, "{}", msg)` (io::Write::write_fmt -> write_all ->
// write -> append).  CBMC needs > 13 GB / 200 s for core::fmt's machinery and then reports spurious
// allocator-model failures inside core::fmt; the formatting layer of std stays in the trusted base.
