//! C20 obligations (one clause only): the last-error buffer is empty, or a
//! NUL-terminated string without interior NUL bytes.
use super::super::*;

/// I(v): v is empty, or v.last() == 0 and no other byte is 0.
fn inv(v: &[u8]) -> bool {
    if v.is_empty() {
        return true;
    }
    let n = v.len();
    if v[n - 1] != 0 {
        return false;
    }
    let mut i = 0;
    while i + 1 < n {
        if v[i] == 0 {
            return false;
        }
        i += 1;
    }
    true
}

/// A symbolic pre-state satisfying I with exactly P content bytes (P = 0 means
/// the empty buffer, i.e. "no error").
fn any_state<const P: usize>() -> CString {
    let mut v = Vec::with_capacity(P + 1);
    if P > 0 {
        let mut i = 0;
        while i < P {
            let b: u8 = kani::any();
            kani::assume(b != 0);
            v.push(b);
            i += 1;
        }
        v.push(0);
    }
    CString(v)
}

/// K1: append(buf) from any state satisfying I: I again; the old content is
/// kept; the bytes of buf are copied with every NUL replaced by 0x1a; exactly
/// one terminating NUL.
fn append_contract<const P: usize, const L: usize>() {
    let mut s = any_state::<P>();
    let old: [u8; P] = {
        let mut o = [0u8; P];
        let mut i = 0;
        while i < P {
            o[i] = s.0[i];
            i += 1;
        }
        o
    };
    let buf: [u8; L] = kani::any();
    let via_fmt: bool = kani::any();
    // through both Write impls
    {
        use std::io::Write;
        let r = s.write(&buf);
        assert!(matches!(r, Ok(n) if n == L));
        std::mem::forget(r);
    }
    let v = &s.0;
    assert!(inv(v), "last-error stays NUL-terminated without interior NUL");
    assert!(v.len() == P + L + 1, "old content + new bytes + one terminator");
    let mut i = 0;
    while i < P {
        assert!(v[i] == old[i], "previous content is preserved by append");
        i += 1;
    }
    let mut i = 0;
    while i < L {
        let want = if buf[i] == 0 { 0x1a } else { buf[i] };
        assert!(v[P + i] == want, "bytes are copied; NUL becomes 0x1a");
        i += 1;
    }
    assert!(!s.as_c_str().is_null(), "a non-empty message is reported");
    assert!(s.as_c_str() as *const u8 == s.0.as_ptr());
    if L > 0 {
        kani::cover!(buf[0] == 0, "NUL in the appended text");
    }
    std::mem::forget(s);
}

#[kani::proof]
#[kani::unwind(6)]
fn cstring_append__invariant_p0_l2() {
    append_contract::<0, 2>()
}

#[kani::proof]
#[kani::unwind(6)]
fn cstring_append__invariant_p2_l2() {
    append_contract::<2, 2>()
}

#[kani::proof]
#[kani::unwind(6)]
fn cstring_append__invariant_p1_l0() {
    append_contract::<1, 0>()
}

#[kani::proof]
#[kani::unwind(9)]
fn cstring_append__invariant_p3_l4() {
    append_contract::<3, 4>()
}

/// K2: clear() => empty; as_c_str() is NULL <=> empty.
#[kani::proof]
#[kani::unwind(6)]
fn cstring_clear__null_iff_empty() {
    let mut s = any_state::<2>();
    assert!(!s.as_c_str().is_null());
    s.clear();
    assert!(s.0.is_empty() && s.as_c_str().is_null(), "cleared last-error reads as NULL");
    let e = CString::new();
    assert!(e.as_c_str().is_null() && inv(&e.0));
    std::mem::forget(s);
}

/// K3: the shape of write_last_error!: clear, then write_str of a message
/// containing a NUL: the previous message is gone and I holds.
#[kani::proof]
#[kani::unwind(8)]
fn cstring_write_last_error_shape__replaces_and_keeps_invariant() {
    use std::fmt::Write;
    let mut s = any_state::<2>();
    let b: u8 = kani::any();
    kani::assume(b < 128);
    let bytes = [b'e', b, b'!'];
    let msg = unsafe { std::str::from_utf8_unchecked(&bytes) };
    s.clear();
    let r = s.write_str(msg);
    assert!(r.is_ok());
    assert!(inv(&s.0));
    assert!(s.0.len() == 4 && s.0[0] == b'e' && s.0[2] == b'!', "the previous message is replaced, not appended to");
    assert!(s.0[1] == if b == 0 { 0x1a } else { b });
    // a second write appends in front of a single terminator
    let r = s.write_str("x");
    assert!(r.is_ok());
    assert!(inv(&s.0) && s.0.len() == 5 && s.0[3] == b'x');
    std::mem::forget(s);
}
