#!/usr/bin/env python3
"""
Mechanical extraction of the *match arms* of the two closure-compiling functions

    <ComparisonExpr as Expr>::compile_with_compiler      (engine/src/ast/field_expr.rs)
    <LogicalExpr   as Expr>::compile_with_compiler       (engine/src/ast/logical_expr.rs)

into free functions inside the real crate (module `<file>::verif_kani::extracted`),
re-done from the working tree on every run of /verif/bin/check.

WHY: the comparison objects (`IntOp`, `BytesOp`, `IpOp`, `BitwiseAnd`, `IsTrue`,
`OneOfInt`, `OneOfIp`, `Contains`, `InList`) are structs declared inside the body of
that function; Rust gives them no path, and running the whole function under CBMC is
intractable (it does not fold the niche-encoded variant tag of `ComparisonOpExpr`, so
the regex / wildcard / searcher arms are explored symbolically - measured, DESIGN.md).
Each arm is therefore lifted, TEXT UNCHANGED, into

    pub(crate) fn arm_<name><C: Compiler>(<the variables the arm may use>) -> CompiledExpr<C::U> { <arm text> }

where the variables are exactly: `lhs`, `compiler`, `nil_not_equal_behavior` (the
function's locals) and the bindings of the arm's pattern (closed table below).  The
statements before the `match` become `fn prologue(this: ComparisonExpr)` with the one
rewrite `self.` -> `this.`.

WHAT THE EXTRACTION DROPS (and nothing else): the variant test of `match self.op`
itself, i.e. that the arm written under pattern P runs exactly for values matching P
(that dispatch is compiled by rustc from the pattern text, which IS kept: the arm
function is named after, and receives the bindings of, the pattern it was written
under; a pattern not in the table => LostAnchor => exit 2, never an alarm).
"""
import os
import re
import sys

sys.path.insert(0, os.path.join(os.path.dirname(os.path.abspath(__file__)), "..", "verus"))
from extract import LostAnchor, scan_to_matching_brace  # noqa: E402


def norm(s):
    return re.sub(r"\s+", "", s)


def skip_ws_comments(src, i):
    n = len(src)
    while i < n:
        if src[i].isspace():
            i += 1
        elif src.startswith("//", i):
            j = src.find("\n", i)
            i = n if j < 0 else j + 1
        elif src.startswith("/*", i):
            j = src.find("*/", i + 2)
            i = n if j < 0 else j + 2
        else:
            break
    return i


def scan_expr_end(src, i):
    """From i (start of an arm body that is not a block) to the top-level ',' ending it."""
    n = len(src)
    depth = 0
    while i < n:
        c = src[i]
        if src.startswith("//", i):
            j = src.find("\n", i)
            i = n if j < 0 else j
            continue
        if c == '"':
            i += 1
            while i < n and src[i] != '"':
                i += 2 if src[i] == "\\" else 1
            i += 1
            continue
        if c == "'":
            m = re.match(r"'(\\.|[^\\'])'", src[i:i + 6])
            i += len(m.group(0)) if m else 1
            continue
        if c == "{":
            i = scan_to_matching_brace(src, i) + 1
            continue
        if c in "([":
            depth += 1
        elif c in ")]":
            depth -= 1
        elif c == "," and depth == 0:
            return i
        elif c == "}" and depth == 0:
            return i
        i += 1
    raise LostAnchor("unterminated match arm")


def split_arms(body):
    """body = text between the braces of `match X { ... }` -> [(pattern_text, arm_text, is_block)]"""
    arms = []
    i = 0
    n = len(body)
    while True:
        i = skip_ws_comments(body, i)
        if i >= n:
            break
        # pattern: up to the top-level `=>`
        j = i
        depth = 0
        while j < n:
            c = body[j]
            if c in "({[":
                depth += 1
            elif c in ")}]":
                depth -= 1
            elif body.startswith("=>", j) and depth == 0:
                break
            j += 1
        if j >= n:
            raise LostAnchor("match arm without =>")
        pat = body[i:j].strip()
        k = skip_ws_comments(body, j + 2)
        if body[k] == "{":
            e = scan_to_matching_brace(body, k)
            arm = body[k:e + 1]
            i = e + 1
            i = skip_ws_comments(body, i)
            if i < n and body[i] == ",":
                i += 1
            arms.append((pat, arm, True))
        else:
            e = scan_expr_end(body, k)
            arm = body[k:e].strip()
            i = e + 1
            arms.append((pat, arm, False))
    return arms


def find_fn_in_impl(src, impl_re, fn_re):
    m = re.search(impl_re, src)
    if not m:
        raise LostAnchor(f"impl not found: {impl_re}")
    open_idx = src.index("{", m.end() - 1)
    close = scan_to_matching_brace(src, open_idx)
    body = src[open_idx + 1:close]
    fm = re.search(fn_re, body)
    if not fm:
        raise LostAnchor(f"fn not found: {fn_re}")
    b_open = body.index("{", fm.end() - 1)
    b_close = scan_to_matching_brace(body, b_open)
    return body[fm.start():b_open], body[b_open + 1:b_close]


COMPARISON_ARMS = {
    # normalised pattern text -> (function name, extra parameters bound by the pattern)
    "ComparisonOpExpr::IsTrue": ("is_true", ""),
    "ComparisonOpExpr::Ordering{op,rhs}": ("ordering", "op: OrderingOp, rhs: RhsValue"),
    "ComparisonOpExpr::Int{op:IntOp::BitwiseAnd,rhs,}": ("int_bitwise_and", "rhs: i64"),
    "ComparisonOpExpr::Contains(bytes)": ("contains", "bytes: BytesExpr"),
    "ComparisonOpExpr::Matches(regex)": ("matches", "regex: Regex"),
    "ComparisonOpExpr::Wildcard(wildcard)": ("wildcard", "wildcard: Wildcard<false>"),
    "ComparisonOpExpr::StrictWildcard(wildcard)": ("strict_wildcard", "wildcard: Wildcard<true>"),
    "ComparisonOpExpr::OneOf(values)": ("one_of", "values: RhsValues"),
    "ComparisonOpExpr::ContainsOneOf(_values)": ("contains_one_of", "_values: Vec<BytesExpr>"),
    "ComparisonOpExpr::InList{name,list}": ("in_list", "name: ListName, list: List"),
}

LOGICAL_ARMS = {
    "LogicalExpr::Comparison(op)": ("comparison", "op: ComparisonExpr"),
    "LogicalExpr::Parenthesized(node)": ("parenthesized", "node: Box<ParenthesizedExpr>"),
    "LogicalExpr::Unary{op:UnaryOp::Not,arg,}": ("unary_not", "arg: Box<LogicalExpr>"),
    "LogicalExpr::Quantifier{op,arg}": ("quantifier", "op: QuantifierOp, arg: Box<QuantifierArgExpr>"),
    "LogicalExpr::Combining{op,items}": ("combining", "op: LogicalOp, items: Vec<LogicalExpr>"),
}

HEADER = """// GENERATED on every run by /verif/kani/extract_arms.py from {src} - do not edit.
// Match arms of `{what}`, text unchanged, lifted into free functions.
// Dropped by the extraction: only the variant test of `match {scrutinee}` (see extract_arms.py).
#![allow(unused_variables, unused_mut, dead_code, unreachable_code, unused_imports, clippy::all)]
use super::super::*;
use crate::compiler::Compiler;
use crate::filter::{{CompiledExpr, CompiledOneExpr, CompiledValueExpr, CompiledVecExpr}};
"""


def gen_comparison(root):
    rel = "engine/src/ast/field_expr.rs"
    src = open(os.path.join(root, rel), encoding="utf-8").read()
    sig, body = find_fn_in_impl(src, r"(?m)^impl\s+Expr\s+for\s+ComparisonExpr\s*\{",
                                r"fn\s+compile_with_compiler\s*<\s*C\s*:\s*Compiler\s*>\s*\(\s*self\s*,\s*compiler\s*:\s*&mut\s+C\s*\)\s*->\s*CompiledExpr<C::U>\s*\{")
    mi = re.search(r"match\s+self\.op\s*\{", body)
    if not mi:
        raise LostAnchor("`match self.op {` not found in ComparisonExpr::compile_with_compiler")
    prologue = body[:mi.start()].strip()
    mopen = body.index("{", mi.end() - 1)
    mclose = scan_to_matching_brace(body, mopen)
    if body[mclose + 1:].strip():
        raise LostAnchor("statements after `match self.op` in ComparisonExpr::compile_with_compiler")
    # the prologue must define exactly the two locals the arms use
    for need in ("let lhs", "let nil_not_equal_behavior"):
        if need not in prologue:
            raise LostAnchor(f"prologue no longer defines `{need[4:]}`")
    arms = split_arms(body[mopen + 1:mclose])
    out = [HEADER.format(src=rel, what="<ComparisonExpr as Expr>::compile_with_compiler", scrutinee="self.op")]
    out.append("use crate::ast::index_expr::{Compare, IndexExpr};\n")
    n_self = len(re.findall(r"\bself\.", prologue))
    out.append("/// statements before `match self.op` (rewrite: `self.` -> `this.`, %d occurrences)\n"
               "pub(crate) fn prologue(this: ComparisonExpr) -> (IndexExpr, bool, ComparisonOpExpr) {\n%s\n"
               "    (lhs, nil_not_equal_behavior, this.op)\n}\n" % (n_self, re.sub(r"\bself\.", "this.", prologue)))
    seen = []
    for pat, arm, is_block in arms:
        key = norm(pat)
        if key not in COMPARISON_ARMS:
            raise LostAnchor(f"unknown arm pattern in ComparisonExpr::compile_with_compiler: {pat!r}")
        name, params = COMPARISON_ARMS[key]
        seen.append(name)
        ps = "lhs: IndexExpr, compiler: &mut C, nil_not_equal_behavior: bool" + (", " + params if params else "")
        text = arm if is_block else "{\n    " + arm + "\n}"
        pat1 = " ".join(pat.split())
        out.append(f"/// arm `{pat1} =>`\npub(crate) fn arm_{name}<C: Compiler>({ps}) -> CompiledExpr<C::U> {text}\n")
    missing = [v[0] for v in COMPARISON_ARMS.values() if v[0] not in seen]
    if missing:
        raise LostAnchor("arms no longer present in ComparisonExpr::compile_with_compiler: " + ", ".join(missing))
    return rel, "engine/src/ast/field_expr/verif_kani/extracted.rs", "\n".join(out), {"arms": seen, "self_rewrites": n_self}


def gen_logical(root):
    rel = "engine/src/ast/logical_expr.rs"
    src = open(os.path.join(root, rel), encoding="utf-8").read()
    sig, body = find_fn_in_impl(src, r"(?m)^impl\s+Expr\s+for\s+LogicalExpr\s*\{",
                                r"fn\s+compile_with_compiler\s*<\s*C\s*:\s*Compiler\s*>\s*\(\s*self\s*,\s*compiler\s*:\s*&mut\s+C\s*\)\s*->\s*CompiledExpr<C::U>\s*\{")
    mi = re.match(r"\s*match\s+self\s*\{", body)
    if not mi:
        raise LostAnchor("LogicalExpr::compile_with_compiler no longer starts with `match self {`")
    mopen = body.index("{", mi.end() - 1)
    mclose = scan_to_matching_brace(body, mopen)
    if body[mclose + 1:].strip():
        raise LostAnchor("statements after `match self` in LogicalExpr::compile_with_compiler")
    arms = split_arms(body[mopen + 1:mclose])
    out = [HEADER.format(src=rel, what="<LogicalExpr as Expr>::compile_with_compiler", scrutinee="self")]
    seen = []
    for pat, arm, is_block in arms:
        key = norm(pat)
        if key not in LOGICAL_ARMS:
            raise LostAnchor(f"unknown arm pattern in LogicalExpr::compile_with_compiler: {pat!r}")
        name, params = LOGICAL_ARMS[key]
        seen.append(name)
        text = arm if is_block else "{\n    " + arm + "\n}"
        pat1 = " ".join(pat.split())
        out.append(f"/// arm `{pat1} =>`\npub(crate) fn arm_{name}<C: Compiler>(compiler: &mut C, {params}) -> CompiledExpr<C::U> {text}\n")
    missing = [v[0] for v in LOGICAL_ARMS.values() if v[0] not in seen]
    if missing:
        raise LostAnchor("arms no longer present in LogicalExpr::compile_with_compiler: " + ", ".join(missing))
    return rel, "engine/src/ast/logical_expr/verif_kani/extracted.rs", "\n".join(out), {"arms": seen}


INDEX_FNS = {
    # fn name -> (signature regex, exact prologue (normalised), parameter list of the lifted arm, return type)
    "compile_one_with": (
        r"fn\s+compile_one_with\s*<\s*C\s*:\s*Compiler\s*>\s*\(\s*self\s*,\s*compiler\s*:\s*&mut\s+C\s*,\s*default\s*:\s*bool\s*,\s*comp\s*:\s*impl\s+Compare<C::U>\s*,?\s*\)\s*->\s*CompiledOneExpr<C::U>\s*\{",
        "letSelf{identifier,indexes,}=self;letindexes=simplify_indexes(indexes);",
        "compiler: &mut C, default: bool, comp: impl Compare<C::U>, indexes: Box<[FieldIndex]>", "CompiledOneExpr<C::U>"),
    "compile_vec_with": (
        r"fn\s+compile_vec_with\s*<\s*C\s*:\s*Compiler\s*>\s*\(\s*self\s*,\s*compiler\s*:\s*&mut\s+C\s*,\s*comp\s*:\s*impl\s+Compare<C::U>\s*,?\s*\)\s*->\s*CompiledVecExpr<C::U>\s*\{",
        "letSelf{identifier,indexes,}=self;letindexes=simplify_indexes(indexes);",
        "compiler: &mut C, comp: impl Compare<C::U>, indexes: Box<[FieldIndex]>", "CompiledVecExpr<C::U>"),
    "compile_iter_with": (
        r"fn\s+compile_iter_with\s*<\s*C\s*:\s*Compiler\s*>\s*\(\s*self\s*,\s*compiler\s*:\s*&mut\s+C\s*,\s*comp\s*:\s*impl\s+Compare<C::U>\s*,?\s*\)\s*->\s*CompiledVecExpr<C::U>\s*\{",
        "letSelf{identifier,indexes,}=self;",
        "compiler: &mut C, comp: impl Compare<C::U>, indexes: Vec<FieldIndex>", "CompiledVecExpr<C::U>"),
}
INDEX_ARMS = {
    "IdentifierExpr::Field(f)": ("field", "f: Field"),
    "IdentifierExpr::FunctionCallExpr(call)": ("function_call", "call: FunctionCallExpr"),
}


def gen_index(root):
    """IndexExpr::{compile_one_with, compile_vec_with, compile_iter_with}: each is
    `let Self {identifier, indexes} = self; [let indexes = simplify_indexes(indexes);] match identifier {..}`.
    The arms are lifted; dropped: the variant test of `match identifier` and the (exactly
    checked) prologue, which the obligations re-execute by calling the real `simplify_indexes`."""
    rel = "engine/src/ast/index_expr.rs"
    src = open(os.path.join(root, rel), encoding="utf-8").read()
    out = [HEADER.format(src=rel, what="IndexExpr::{compile_one_with, compile_vec_with, compile_iter_with}", scrutinee="identifier")]
    out.append("use crate::ast::function_expr::FunctionCallExpr;\nuse crate::scheme::Field;\n")
    seen = []
    for fname, (sig_re, prologue_norm, params, ret) in INDEX_FNS.items():
        sig, body = find_fn_in_impl(src, r"(?m)^impl\s+IndexExpr\s*\{", sig_re)
        mi = re.search(r"match\s+identifier\s*\{", body)
        if not mi:
            raise LostAnchor(f"`match identifier {{` not found in IndexExpr::{fname}")
        if norm(body[:mi.start()]) != prologue_norm:
            raise LostAnchor(f"prologue of IndexExpr::{fname} changed: {body[:mi.start()].strip()!r}")
        mopen = body.index("{", mi.end() - 1)
        mclose = scan_to_matching_brace(body, mopen)
        if body[mclose + 1:].strip():
            raise LostAnchor(f"statements after `match identifier` in IndexExpr::{fname}")
        names = []
        for pat, arm, is_block in split_arms(body[mopen + 1:mclose]):
            key = norm(pat)
            if key not in INDEX_ARMS:
                raise LostAnchor(f"unknown arm pattern in IndexExpr::{fname}: {pat!r}")
            name, bind = INDEX_ARMS[key]
            names.append(name)
            text = arm if is_block else "{\n    " + arm + "\n}"
            pat1 = " ".join(pat.split())
            out.append(f"/// `IndexExpr::{fname}`, arm `{pat1} =>`\npub(crate) fn {fname}__arm_{name}<C: Compiler>({params}, {bind}) -> {ret} {text}\n")
        if sorted(names) != ["field", "function_call"]:
            raise LostAnchor(f"arms of IndexExpr::{fname} changed: {names}")
        seen.append(fname)
    return rel, "engine/src/ast/index_expr/verif_kani/extracted.rs", "\n".join(out), {"functions": seen}


TAILS = [
    # (source file, impl regex, fn regex, exact first statement (normalised), signature of the lifted tail, dest module dir)
    ("engine/src/ast/mod.rs", r"(?m)^impl<'i,\s*'s>\s+LexWith<'i,\s*&FilterParser<'s>>\s+for\s+FilterAst\s*\{",
     r"fn\s+lex_with\s*\(\s*input\s*:\s*&'i\s+str\s*,\s*parser\s*:\s*&FilterParser<'s>\s*\)\s*->\s*LexResult<'i,\s*Self>\s*\{",
     "let(op,input)=LogicalExpr::lex_with(input,parser)?;",
     "pub(crate) fn filter_ast_lex_with__tail<'i, 's>(parser: &FilterParser<'s>, op: LogicalExpr, input: &'i str) -> LexResult<'i, FilterAst>",
     "engine/src/ast"),
    ("engine/src/ast/mod.rs", r"(?m)^impl<'i,\s*'s>\s+LexWith<'i,\s*&FilterParser<'s>>\s+for\s+FilterValueAst\s*\{",
     r"fn\s+lex_with\s*\(\s*input\s*:\s*&'i\s+str\s*,\s*parser\s*:\s*&FilterParser<'s>\s*\)\s*->\s*LexResult<'i,\s*Self>\s*\{",
     "let(op,rest)=IndexExpr::lex_with(input.trim(),parser)?;",
     "pub(crate) fn filter_value_ast_lex_with__tail<'i, 's>(input: &'i str, parser: &FilterParser<'s>, op: IndexExpr, rest: &'i str) -> LexResult<'i, FilterValueAst>",
     "engine/src/ast"),
    ("engine/src/ast/logical_expr.rs", r"(?m)^impl<'i,\s*'s>\s+LexWith<'i,\s*&FilterParser<'s>>\s+for\s+QuantifierArgExpr\s*\{",
     r"fn\s+lex_with\s*\(\s*input\s*:\s*&'i\s+str\s*,\s*parser\s*:\s*&FilterParser<'s>\s*\)\s*->\s*LexResult<'i,\s*Self>\s*\{",
     "let(arg,rest)=FunctionCallArgExpr::lex_with(input,parser)?;",
     "pub(crate) fn quantifier_arg_lex_with__tail<'i, 's>(input: &'i str, parser: &FilterParser<'s>, arg: FunctionCallArgExpr, rest: &'i str) -> LexResult<'i, QuantifierArgExpr>",
     "engine/src/ast/logical_expr"),
]


def first_statement_end(body):
    """index just after the first top-level `;` of a function body"""
    depth = 0
    i = 0
    n = len(body)
    while i < n:
        c = body[i]
        if body.startswith("//", i):
            j = body.find("\n", i)
            i = n if j < 0 else j
            continue
        if c == '"':
            i += 1
            while i < n and body[i] != '"':
                i += 2 if body[i] == "\\" else 1
            i += 1
            continue
        if c in "({[":
            depth += 1
        elif c in ")}]":
            depth -= 1
        elif c == ";" and depth == 0:
            return i + 1
        i += 1
    raise LostAnchor("no first statement")


def gen_tails(root):
    """The three type checks that follow a recursive-descent call (`FilterAst` root must be
    Bool, `FilterValueAst` must be free of [*], a quantifier argument must be Array(Bool)) all
    have the shape `let (x, rest) = <Callee>::lex_with(..)?; <check on x>`.  The callee is a
    `LexWith` trait method that Kani cannot stub and that is intractable to run; so everything
    AFTER the first statement is lifted, text unchanged, into a function whose parameters are
    the function's parameters plus the two variables that statement binds.  Dropped: exactly
    that first statement (compared verbatim)."""
    outs = {}
    seen = []
    for rel, impl_re, fn_re, first_norm, sig, destdir in TAILS:
        src = open(os.path.join(root, rel), encoding="utf-8").read()
        _sig, body = find_fn_in_impl(src, impl_re, fn_re)
        k = first_statement_end(body)
        # strip comments of the first statement before comparing
        if norm(re.sub(r"//[^\n]*", "", body[:k])) != first_norm:
            raise LostAnchor(f"first statement of {sig.split('(')[0].split()[-1]} changed: {body[:k].strip()!r}")
        tail = body[k:]
        # the one rewrite: `Self` -> the implementing type (a free function has no Self)
        self_ty = re.search(r"->\s*LexResult<'i,\s*(\w+)>", sig).group(1)
        tail, n_self = re.subn(r"\bSelf\b", self_ty, tail)
        dest = destdir + "/verif_kani/extracted_tails.rs"
        outs.setdefault(dest, []).append(f"/// everything after the first statement of the `lex_with` in {rel} (rewrite `Self` -> `{self_ty}`: {n_self} occurrences)\n{sig} {{{tail}}}\n")
        seen.append(sig.split("(")[0].split()[-1])
    info = {}
    for dest, chunks in outs.items():
        head = ("// GENERATED on every run by /verif/kani/extract_arms.py (gen_tails) - do not edit.\n"
                "#![allow(unused_variables, unused_mut, dead_code, unreachable_code, unused_imports, clippy::all)]\n"
                "use super::super::*;\nuse crate::ast::parse::FilterParser;\nuse crate::ast::function_expr::FunctionCallArgExpr;\n"
                "use crate::ast::index_expr::IndexExpr;\nuse crate::ast::logical_expr::LogicalExpr;\n"
                "use crate::lex::{LexErrorKind, LexResult, LexWith};\nuse crate::types::{GetType, Type, TypeMismatchError};\n")
        text = head + "\n".join(chunks)
        os.makedirs(os.path.dirname(os.path.join(root, dest)), exist_ok=True)
        with open(os.path.join(root, dest), "w") as f:
            f.write(text)
        info[dest] = {"tails": [c.split("fn ")[1].split("<")[0] for c in chunks], "bytes": len(text)}
    return info


def generate(root):
    """Write both extracted modules under root; returns info for the evidence file."""
    info = {}
    for gen in (gen_comparison, gen_logical, gen_index):
        rel, dest, text, meta = gen(root)
        os.makedirs(os.path.dirname(os.path.join(root, dest)), exist_ok=True)
        with open(os.path.join(root, dest), "w") as f:
            f.write(text)
        info[dest] = dict(meta, source=rel, bytes=len(text))
    info.update(gen_tails(root))
    return info


if __name__ == "__main__":
    try:
        print(generate(sys.argv[1]))
    except LostAnchor as e:
        print("LOST ANCHOR:", e)
        sys.exit(2)
