//! Stub: just enough of `backtrace::Backtrace` for `engine/src/panic.rs`.
#[derive(Debug, Default)]
pub struct Backtrace;
impl Backtrace {
    pub fn new() -> Self {
        Backtrace
    }
}
