#!/usr/bin/env python3
"""
Mechanical extraction of real functions/types from /repo's working tree into a
single-file Verus unit (DESIGN.md 2.3).  Re-done on every run of /verif/bin/check.

A unit is described by /verif/verus/<unit>.spec.toml:

  prelude  = verus text placed before the extracted items (hand-declared types that
             cannot be extracted, spec functions of the abstract view)       [ASSUMPTION: listed in evidence]
  epilogue = verus text placed after (callers / lemmas that use only the contracts)
  [[item]] kind = "enum" | "struct" | "impl_fn",  file, name, (impl)
           contract = "requires ..., ensures ...,"        (spliced between signature and body)
           ret      = name for the return value (default "r")
           [[item.proof]] before = "<exact statement text>", text = "proof { .. }" (spliced before it)

The extracted text is pasted UNCHANGED except for this closed list of rewrites,
each counted in the returned info (and copied into the evidence file):

  R1  `fn f(mut self, ..) { B }` -> `fn f(self, ..) { let mut this = self; B[self -> this] }`
  R2  attributes: drop `#[inline]`, doc comments, and derives Verus cannot derive
      (keeps Clone, Copy, PartialEq, Eq)
  R3  drop visibility qualifiers (`pub`, `pub(crate)`) on items, fields and functions
  R4  splice the contract after the signature (return type `-> T` becomes `-> (r: T)`)
      and each `proof {..}` block before its anchor statement

A missing item or anchor raises LostAnchor (=> exit 2 "undecided", never an alarm).
"""
import os
import re
import tomllib


class LostAnchor(Exception):
    pass


def scan_to_matching_brace(src, open_idx):
    """src[open_idx] == '{' ; return index of the matching '}' (skips strings, chars, comments)."""
    assert src[open_idx] == "{"
    depth = 0
    i = open_idx
    n = len(src)
    while i < n:
        c = src[i]
        if src.startswith("//", i):
            j = src.find("\n", i)
            i = n if j < 0 else j
            continue
        if src.startswith("/*", i):
            j = src.find("*/", i + 2)
            i = n if j < 0 else j + 2
            continue
        if c == '"':
            i += 1
            while i < n and src[i] != '"':
                i += 2 if src[i] == "\\" else 1
            i += 1
            continue
        if c == "r" and re.match(r'r#*"', src[i:i + 8]) and (i == 0 or not (src[i - 1].isalnum() or src[i - 1] == "_")):
            m = re.match(r'r(#*)"', src[i:])
            closing = '"' + m.group(1)
            j = src.find(closing, i + len(m.group(0)))
            i = n if j < 0 else j + len(closing)
            continue
        if c == "'":
            m = re.match(r"'(\\.|[^\\'])'", src[i:i + 6])
            if m:
                i += len(m.group(0))
                continue
            i += 1  # lifetime
            continue
        if c == "{":
            depth += 1
        elif c == "}":
            depth -= 1
            if depth == 0:
                return i
        i += 1
    raise LostAnchor("unbalanced braces")


def leading_attrs_start(src, item_idx):
    """Walk backwards over attribute / doc-comment lines directly above the item."""
    line_start = src.rfind("\n", 0, item_idx) + 1
    start = line_start
    while start > 0:
        prev_end = start - 1
        prev_start = src.rfind("\n", 0, prev_end) + 1
        line = src[prev_start:prev_end].strip()
        if line.startswith("#[") or line.startswith("///") or line.startswith("//"):
            start = prev_start
        else:
            break
    return start


def find_type_item(src, kind, name):
    m = re.search(r"(?m)^[ \t]*(pub(\([a-z]+\))?[ \t]+)?%s[ \t]+%s\b[^;{]*\{" % (kind, re.escape(name)), src)
    if not m:
        raise LostAnchor(f"{kind} {name} not found")
    open_idx = m.end() - 1
    close = scan_to_matching_brace(src, open_idx)
    start = leading_attrs_start(src, m.start())
    return src[start:close + 1]


def find_impl_fn(src, impl, name):
    for m in re.finditer(r"(?m)^impl[ \t]+%s[ \t]*\{" % re.escape(impl), src):
        open_idx = m.end() - 1
        close = scan_to_matching_brace(src, open_idx)
        body = src[open_idx + 1:close]
        fm = re.search(r"(?m)^[ \t]*(pub(\([a-z]+\))?[ \t]+)?(const[ \t]+)?fn[ \t]+%s[ \t]*\(" % re.escape(name), body)
        if not fm:
            continue
        b_open = body.find("{", fm.end())
        # the first '{' after the signature that is not inside the parameter list
        sig_end = b_open
        b_close = scan_to_matching_brace(body, b_open)
        start = leading_attrs_start(body, fm.start())
        return body[start:b_close + 1]
    raise LostAnchor(f"fn {impl}::{name} not found")


KEEP_DERIVES = ("Clone", "Copy", "PartialEq", "Eq")


def rewrite_attrs(text, counts):
    out = []
    for line in text.split("\n"):
        s = line.strip()
        if s.startswith("///") or s.startswith("//!"):
            counts["R2"] += 1
            continue
        if s.startswith("#[inline"):
            counts["R2"] += 1
            continue
        m = re.match(r"^(\s*)#\[derive\((.*)\)\]\s*$", line)
        if m:
            ds = [d.strip() for d in m.group(2).split(",") if d.strip()]
            kept = [d for d in ds if d in KEEP_DERIVES]
            if len(kept) != len(ds):
                counts["R2"] += 1
            if kept:
                out.append(f"{m.group(1)}#[derive({', '.join(kept)})]")
            continue
        out.append(line)
    return "\n".join(out)


def strip_vis(text, counts):
    new, n = re.subn(r"(?m)^(\s*)pub(\([a-z]+\))?[ \t]+", r"\1", text)
    counts["R3"] += n
    return new


def rewrite_fn(text, item, counts):
    text = rewrite_attrs(text, counts)
    text = strip_vis(text, counts)
    open_idx = text.find("{", text.find(")"))
    # signature is everything up to the body's opening brace
    depth = 0
    i = text.find("(")
    while True:
        if text[i] == "(":
            depth += 1
        elif text[i] == ")":
            depth -= 1
            if depth == 0:
                break
        i += 1
    params_end = i
    open_idx = text.find("{", params_end)
    sig = text[:open_idx].rstrip()
    body = text[open_idx + 1:text.rfind("}")]
    # R1
    if re.search(r"\(\s*mut\s+self\b", sig):
        sig = re.sub(r"\(\s*mut\s+self\b", "(self", sig)
        body = re.sub(r"\bself\b", "this", body)
        body = "\n        let mut this = self;" + body
        counts["R1"] += 1
    # R4: contract
    ret = item.get("ret", "r")
    contract = item.get("contract", "").strip()
    if contract:
        m = re.search(r"->\s*(.+)$", sig, re.S)
        if m:
            sig = sig[:m.start()] + f"-> ({ret}: {m.group(1).strip()})"
        sig = sig + "\n        " + contract.replace("\n", "\n        ")
        counts["R4"] += 1
    for pr in item.get("proof", []):
        anchor = pr["before"]
        k = body.find(anchor)
        if k < 0:
            raise LostAnchor(f"statement `{anchor}` not found in fn {item.get('impl', '')}::{item['name']}")
        if body.find(anchor, k + 1) >= 0 and not pr.get("first", False):
            raise LostAnchor(f"statement `{anchor}` is ambiguous in fn {item['name']}")
        line_start = body.rfind("\n", 0, k) + 1
        indent = body[line_start:k]
        body = body[:line_start] + indent + pr["text"].strip().replace("\n", "\n" + indent) + "\n" + body[line_start:]
        counts["R4"] += 1
    return sig + "\n    {" + body + "}\n"


def build_unit(spec_path, repo_root, out_path):
    spec = tomllib.load(open(spec_path, "rb"))
    if spec.get("base"):
        base = tomllib.load(open(os.path.join(os.path.dirname(spec_path), spec["base"]), "rb"))
        base.update({k: v for k, v in spec.items() if k != "base"})
        spec = base
    counts = {"R1": 0, "R2": 0, "R3": 0, "R4": 0}
    items_done = []
    chunks = []
    impls = {}
    order = []
    for it in spec.get("item", []):
        path = os.path.join(repo_root, it["file"])
        if not os.path.exists(path):
            raise LostAnchor(f"{it['file']} does not exist")
        src = open(path, encoding="utf-8").read()
        if it["kind"] in ("enum", "struct"):
            text = find_type_item(src, it["kind"], it["name"])
            text = strip_vis(rewrite_attrs(text, counts), counts)
            chunks.append(("type", text))
            order.append(("type", len(chunks) - 1))
            items_done.append(f"{it['kind']} {it['name']} ({it['file']})")
        elif it["kind"] == "impl_fn":
            text = find_impl_fn(src, it["impl"], it["name"])
            text = rewrite_fn(text, it, counts)
            if it["impl"] not in impls:
                impls[it["impl"]] = []
                order.append(("impl", it["impl"]))
            impls[it["impl"]].append(text)
            items_done.append(f"fn {it['impl']}::{it['name']} ({it['file']})")
        else:
            raise LostAnchor(f"unknown item kind {it['kind']}")
    out = ["// GENERATED by /verif/verus/extract.py from the working tree - do not edit",
           "use vstd::prelude::*;", "verus! {", ""]
    out.append(spec.get("prelude_types", ""))
    for kind, key in order:
        if kind == "type":
            out.append(chunks[key][1])
            out.append("")
    out.append(spec.get("prelude", ""))
    for kind, key in order:
        if kind == "impl":
            out.append(f"impl {key} {{")
            for f in impls[key]:
                out.append(f)
            out.append("}")
            out.append("")
    out.append(spec.get("epilogue", ""))
    out.append("} // verus!")
    out.append("fn main() {}")
    with open(out_path, "w") as fh:
        fh.write("\n".join(out) + "\n")
    return {"rewrites": counts, "items": items_done,
            "hand_written": [k for k in ("prelude_types", "prelude", "epilogue") if spec.get(k)]}


if __name__ == "__main__":
    import sys
    print(build_unit(sys.argv[1], sys.argv[2], sys.argv[3]))
